import Iauthd.Proto.Table
/-
  Property C17 — "A reload reaches the decision modules" (model part).  The observable
  statement (reloaded daemon = freshly started daemon on probe clients) is decided by the
  differential judge on the real code.  Proved here: how the model delivers a configuration.
-/
namespace Iauthd.Properties
open Iauthd Iauthd.Proto

/-- whenever the merged service section differs from the live one in any way — an entry
    added, removed, or only its value edited — the service table is rebuilt from it;
    likewise the rule vector.  (On the pinned tree only membership changes were delivered.) -/
theorem C17_delivery (s : State) (live new : Config) (first : Bool) :
    (applyConfig s live new first).1 =
      (let s0 := { s with timeout := new.timeout }
       let s1 := if s0.hasXq && (first || mergeSection live.xq new.xq != live.xq)
                 then servicesChanged s0 (mergeSection live.xq new.xq) else s0
       if s1.hasClass && (first || mergeSection live.cls new.cls != live.cls)
       then classChanged s1 (mergeSection live.cls new.cls) else s1)
    ∧ (applyConfig s live new first).2 =
        { timeout := new.timeout, xq := mergeSection live.xq new.xq, cls := mergeSection live.cls new.cls } :=
  ⟨rfl, rfl⟩

/-- the rule vector after a rebuild is the compilation of the object children of the section,
    in section order, with hit counters inherited by name -/
theorem C17_rules (s : State) (sec : List CNode) :
    (classChanged s sec).rules = inheritAssigned ((sec.filter (!·.isString)).map compileRule) s.rules
    ∧ (classChanged s sec).nRuleNodes = sec.length := ⟨rfl, rfl⟩

/-- hit-counter inheritance does not change what a rule says -/
theorem C17_inherit_same_rules (new old : List Rule) :
    (inheritAssigned new old).map (fun r => { r with assigned := 0 }) = new.map (fun r => { r with assigned := 0 }) := by
  induction new generalizing old with
  | nil => rfl
  | cons r rs ih =>
    unfold inheritAssigned
    dsimp only
    split
    · split <;> simp [ih]
    · simp [ih]

/-- a new request uses the timeout of the configuration that is live when it is announced -/
theorem C17_timeout (s : State) (live new : Config) (first : Bool) :
    (applyConfig s live new first).1.timeout = new.timeout := by
  simp only [applyConfig]
  split <;> split <;> simp [servicesChanged, classChanged]

end Iauthd.Properties
