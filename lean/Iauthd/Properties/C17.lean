import Iauthd.Proto.Reload17
import Iauthd.Proto.Deliver
import Iauthd.Proto.Reload17b
import Iauthd.Proto.Rules17
import Iauthd.Proto.SortSec
import Iauthd.Proto.Table
/-
  Property C17 — "A reload reaches the decision modules" (model part).  The observable
  statement (reloaded daemon = freshly started daemon on probe clients) is decided by the
  differential judge on the real code.  Proved here: how the model delivers a configuration.
-/
namespace Iauthd.Properties
open Iauthd Iauthd.Proto

-- the derived equality test of configuration nodes is equality
deriving instance ReflBEq, LawfulBEq for CNode

/-- how a configuration is delivered: at start-up each module scans its section once; on a reload
    `iauth_xquery` rescans at every hook run of the merge (`rescanWalk`), `iauth_class` rebuilds its
    rules when its section differs from the live one in any way.  (On the pinned tree only membership
    changes were delivered.) -/
theorem C17_delivery (s : State) (live new : Config) (first : Bool) :
    (applyConfig s live new first).1 =
      (let s0 := { s with timeout := new.timeout }
       let s1 := if s0.hasXq then
                   (if first then servicesChanged s0 (mergeSection live.xq new.xq)
                    else (rescanWalk [] live.xq (mergeSection live.xq new.xq) false).foldl servicesChanged s0)
                 else s0
       if s1.hasClass && (first || mergeSection live.cls new.cls != live.cls)
       then classChanged s1 (mergeSection live.cls new.cls) else s1)
    ∧ (applyConfig s live new first).2 =
        { timeout := new.timeout, xq := mergeSection live.xq new.xq, cls := mergeSection live.cls new.cls } :=
  ⟨rfl, rfl⟩

/-- **C17, the reload reaches `iauth_xquery`**: whenever the module is shown anything during a
    reload, the last rescan it makes sees the string entries of the new file's section - names as the
    new file spells them, values as it gives them … -/
theorem C17_last_rescan (live new : Config) (sec : List CNode)
    (h : (rescanWalk [] live.xq (mergeSection live.xq new.xq) false).getLast? = some sec) :
    svcView sec = svcView (mergeSection live.xq new.xq) := by
  simpa using rescanWalk_last [] live.xq (mergeSection live.xq new.xq) false sec h

/-- … and it is shown nothing only when those entries are the ones it has already scanned -/
theorem C17_no_rescan (live new : Config) (h : rescanWalk [] live.xq (mergeSection live.xq new.xq) false = []) :
    svcView live.xq = svcView (mergeSection live.xq new.xq) :=
  rescanWalk_nil _ _ _ _ h

/-- so the state after a reload is a rescan of the new file's section (from some earlier table), or
    the state before it when that section says what the live one said -/
theorem C17_reload_is_rescan (s : State) (live new : Config) :
    (∃ s', deliverXq s live.xq (mergeSection live.xq new.xq) false = servicesChanged s' (mergeSection live.xq new.xq)) ∨
    (deliverXq s live.xq (mergeSection live.xq new.xq) false = s ∧ svcView live.xq = svcView (mergeSection live.xq new.xq)) := by
  unfold deliverXq
  simp only [Bool.false_eq_true, if_false]
  cases hl : (rescanWalk [] live.xq (mergeSection live.xq new.xq) false).getLast? with
  | none =>
    have hnil := List.getLast?_eq_none_iff.mp hl
    exact Or.inr ⟨by rw [hnil]; rfl, C17_no_rescan live new hnil⟩
  | some sec =>
    refine Or.inl ?_
    have hne : rescanWalk [] live.xq (mergeSection live.xq new.xq) false ≠ [] := by
      intro h; rw [h] at hl; cases hl
    have hd := List.dropLast_concat_getLast hne
    have hlast : (rescanWalk [] live.xq (mergeSection live.xq new.xq) false).getLast hne = sec := by
      rw [List.getLast?_eq_some_getLast hne] at hl; exact Option.some.inj hl
    refine ⟨(rescanWalk [] live.xq (mergeSection live.xq new.xq) false).dropLast.foldl servicesChanged s, ?_⟩
    rw [← servicesChanged_congr _ (C17_last_rescan live new sec hl)]
    conv => lhs; rw [← hd]
    rw [List.foldl_append, hlast]
    rfl

/-- **C17, live sections**: the configuration the daemon holds after a reload does not depend on
    the files loaded before - it is the one a fresh start on the new file holds, names spelled as
    the new file spells them.  (On the pinned tree an entry present in both files kept the
    spelling of the older file: finding F33.) -/
theorem C17_config_fresh (s s0 : State) (live new : Config) (first : Bool) :
    (applyConfig s live new first).2 = (applyConfig s0 {} new true).2 := rfl

/-- the rule vector after a rebuild is the compilation of the object children of the section,
    in section order, with hit counters inherited by name -/
theorem C17_rules (s : State) (sec : List CNode) :
    (classChanged s sec).rules = inheritAssigned ((sec.filter (!·.isString)).map compileRule) s.rules
    ∧ (classChanged s sec).nRuleNodes = sec.length := ⟨rfl, rfl⟩

/-- hit-counter inheritance does not change what a rule says -/
theorem C17_inherit_same_rules (new old : List Rule) :
    (inheritAssigned new old).map (fun r => { r with assigned := 0 }) = new.map (fun r => { r with assigned := 0 }) := by
  induction new generalizing old with
  | nil => rfl
  | cons r rs ih =>
    unfold inheritAssigned
    dsimp only
    split
    · split <;> simp [ih]
    · simp [ih]

/-- a new request uses the timeout of the configuration that is live when it is announced -/
theorem C17_timeout (s : State) (live new : Config) (first : Bool) :
    (applyConfig s live new first).1.timeout = new.timeout :=
  applyConfig_timeout s live new first

/-! ### the tables after a reload and after a fresh start -/

/-- **C17, service table**: when nobody waits for a service (no reference is outstanding), a rescan
    of the service section - from whatever table the earlier files left - yields a table that holds
    exactly the services the section names with a known protocol, each with that protocol (and every
    slot in use is configured: `servicesChanged_allConf`) -/
theorem C17_services (s : State) (sec : List CNode) (hok : TableOK s.svcs) (hr : NoRefs s.svcs)
    (hd : SecDistinct sec) (hn : ∀ n ∈ sec, NoNul n.name) (name : Bytes) (t : SvcTy) :
    (∃ y, some y ∈ (servicesChanged s sec).svcs ∧ y.name = name ∧ y.ty = t) ↔ Wants sec name t :=
  servicesChanged_exact s sec hok hr hd hn name t

/-- … hence the same services, with the same protocols, as a daemon freshly started on the section -/
theorem C17_services_fresh (s s0 : State) (sec : List CNode) (hok : TableOK s.svcs) (hr : NoRefs s.svcs)
    (h0 : s0.svcs = []) (hd : SecDistinct sec) (hn : ∀ n ∈ sec, NoNul n.name) (name : Bytes) (t : SvcTy) :
    (∃ y, some y ∈ (servicesChanged s sec).svcs ∧ y.name = name ∧ y.ty = t) ↔
    (∃ y, some y ∈ (servicesChanged s0 sec).svcs ∧ y.name = name ∧ y.ty = t) :=
  servicesChanged_fresh s s0 sec hok hr h0 hd hn name t

/-- **C17, rule table**: after a rebuild the rules are, up to their hit counters, the compilation of
    the section - the same list, in the same order, as after a fresh start on that section -/
theorem C17_rules_fresh (s s0 : State) (sec : List CNode) :
    eraseR (classChanged s sec).rules = eraseR (classChanged s0 sec).rules := by
  rw [(C17_rules s sec).1, (C17_rules s0 sec).1]
  unfold eraseR
  have e : ∀ (l : List Rule), l.map kernelR = l.map (fun r => { r with assigned := 0 }) := fun l => rfl
  rw [e, e, C17_inherit_same_rules, C17_inherit_same_rules]

/-! ### any number of reloads -/

/-- what a daemon nobody waits on keeps true of its service table: well formed, unreferenced, and
    holding exactly the services the live section names, each with the protocol it names -/
def Reflects (s : State) (live : List CNode) : Prop :=
  TableOK s.svcs ∧ NoRefs s.svcs ∧ ∀ name t, Has s name t ↔ Wants live name t

/-- a section the configuration set can hold: one string entry per name, no NUL in a name -/
def GoodSec (sec : List CNode) : Prop := SecDistinct sec ∧ ∀ n ∈ sec, NoNul n.name

/-- a fresh start reflects its file -/
theorem C17_reflects_start (s0 : State) (h0 : s0.svcs = []) (sec : List CNode) (hg : GoodSec sec) :
    Reflects (servicesChanged s0 sec) sec := by
  have hok : TableOK s0.svcs := by rw [h0]; exact ⟨(fun x hx => by cases hx), (fun i j x y hx => by simp at hx)⟩
  have hr : NoRefs s0.svcs := by rw [h0]; intro x hx; cases hx
  obtain ⟨k1, k2⟩ := servicesChanged_keeps s0 sec hok hr hg.2
  exact ⟨k1, k2, fun name t => servicesChanged_exact s0 sec hok hr hg.1 hg.2 name t⟩

/-- **C17 across a reload**: a daemon that reflects the live section reflects the new one after the
    reload, whichever hooks ran during the merge and however many intermediate rescans they caused -/
theorem C17_reflects_reload (s : State) (live xq : List CNode) (h : Reflects s live) (hl : GoodSec live) (hx : GoodSec xq) :
    Reflects (deliverXq s live xq false) xq := by
  obtain ⟨k1, k2⟩ := deliverXq_keeps s live xq false h.1 h.2.1 hl.2 hx.2
  exact ⟨k1, k2, fun name t => deliverXq_exact s live xq h.1 h.2.1 h.2.2 hl.2 hx.2 hx.1 name t⟩

/-- a run of reloads, each from the section the previous one installed -/
def reloadAll (s : State) (live : List CNode) : List (List CNode) → State × List CNode
  | [] => (s, live)
  | xq :: rest => reloadAll (deliverXq s live xq false) xq rest

/-- **C17 across any history of reloads**: started on one file and reloaded with any number of
    others, the daemon's service table is the one the last file names - the one a daemon freshly
    started on that file has (`C17_reflects_start`) -/
theorem C17_reloads : ∀ (secs : List (List CNode)) (s : State) (live : List CNode), Reflects s live → GoodSec live →
    (∀ sec ∈ secs, GoodSec sec) → Reflects (reloadAll s live secs).1 (reloadAll s live secs).2
  | [], _, _, h, _, _ => h
  | xq :: rest, s, live, h, hl, hs => by
    unfold reloadAll
    exact C17_reloads rest _ xq (C17_reflects_reload s live xq h hl (hs xq (List.mem_cons_self ..))) (hs xq (List.mem_cons_self ..))
      (fun sec hm => hs sec (List.mem_cons_of_mem _ hm))

theorem C17_reloads_fresh (s0 s0' : State) (h0 : s0.svcs = []) (h0' : s0'.svcs = []) (first : List CNode) (secs : List (List CNode))
    (hf : GoodSec first) (hs : ∀ sec ∈ secs, GoodSec sec) (name : Bytes) (t : SvcTy) :
    Has (reloadAll (servicesChanged s0 first) first secs).1 name t ↔
    Has (servicesChanged s0' (reloadAll (servicesChanged s0 first) first secs).2) name t := by
  have hlast : GoodSec (reloadAll (servicesChanged s0 first) first secs).2 := by
    have key : ∀ (secs : List (List CNode)) (s : State) (live : List CNode), GoodSec live → (∀ sec ∈ secs, GoodSec sec) →
        GoodSec (reloadAll s live secs).2 := by
      intro secs
      induction secs with
      | nil => intro s live hl _; exact hl
      | cons x r ih =>
        intro s live _ hs
        unfold reloadAll
        exact ih _ x (hs x (List.mem_cons_self ..)) (fun sec hm => hs sec (List.mem_cons_of_mem _ hm))
    exact key secs _ first hf hs
  have a := (C17_reloads secs _ first (C17_reflects_start s0 h0 first hf) hf hs).2.2 name t
  have c := (C17_reflects_start s0' h0' _ hlast).2.2 name t
  rw [a, c]

/-- **the same content again changes nothing**: a reload whose sections are the live ones shows
    neither module anything and leaves the daemon's state as it was (but for the timeout, which
    is the file's) -/
theorem C17_same_content_silent (s : State) (live new : Config)
    (hx : mergeSection live.xq new.xq = live.xq) (hc : mergeSection live.cls new.cls = live.cls) :
    (applyConfig s live new false).1 = { s with timeout := new.timeout } := by
  unfold applyConfig
  dsimp only
  rw [hx, hc]
  unfold deliverXq
  simp only [Bool.false_eq_true, if_false, rescanWalk_same, List.foldl_nil, bne_self_eq_false, Bool.or_self,
    Bool.and_false, ite_self]

/-- loading the same file twice: the second load changes nothing at all -/
theorem C17_same_file_twice (s : State) (live f : Config) (first : Bool) :
    (applyConfig (applyConfig s live f first).1 (applyConfig s live f first).2 f false).1 = (applyConfig s live f first).1 := by
  rw [C17_same_content_silent _ _ _ rfl rfl]
  have ht := applyConfig_timeout s live f first
  generalize (applyConfig s live f first).1 = s1 at ht
  cases s1
  simp_all

/-! ### for every file -/

/-- what a module is handed of a file's section is a good section: the configuration set holds one
    node per key, in `conf_object_cmp` order (`sortSection_distinct`) -/
theorem GoodSec_sortSection (file : List CNode) (h : ∀ n ∈ file, NoNul n.name) : GoodSec (sortSection file) :=
  sortSection_distinct file h

theorem Reflects.congr {s s' : State} {live : List CNode} (h : Reflects s live) (e : s'.svcs = s.svcs) : Reflects s' live := by
  unfold Reflects Has at *
  rw [e]; exact h

/-- **C17, service table, one reload as the daemon performs it** (`applyConfig`): a daemon with the
    xquery module whose table reflects the live section - nobody waiting - reflects the new file's
    section afterwards, for every new file whose names are C strings -/
theorem C17_services_load (s : State) (live new : Config) (hx : s.hasXq = true) (h : Reflects s live.xq)
    (hl : GoodSec live.xq) (hn : ∀ n ∈ new.xq, NoNul n.name) :
    Reflects (applyConfig s live new false).1 (applyConfig s live new false).2.xq ∧
    GoodSec (applyConfig s live new false).2.xq := by
  have hg : GoodSec (mergeSection live.xq new.xq) := GoodSec_sortSection new.xq hn
  refine ⟨?_, hg⟩
  have h0 : Reflects ({ s with timeout := new.timeout } : State) live.xq := h.congr rfl
  have h1 := C17_reflects_reload { s with timeout := new.timeout } live.xq (mergeSection live.xq new.xq) h0 hl hg
  unfold applyConfig
  dsimp only
  rw [if_pos (show ({ s with timeout := new.timeout } : State).hasXq = true from hx)]
  split
  · exact h1.congr rfl
  · exact h1

/-- **… and any number of them from a fresh start**: started on one file and reloaded with any
    others (names C strings, nobody waiting at the moment of a reload), the table is exactly what
    the last file names -/
def loadAll (s : State) (live : Config) : List Config → State × Config
  | [] => (s, live)
  | f :: rest => loadAll (applyConfig s live f false).1 (applyConfig s live f false).2 rest

theorem C17_services_loads : ∀ (files : List Config) (s : State) (live : Config), s.hasXq = true → Reflects s live.xq →
    GoodSec live.xq → (∀ f ∈ files, ∀ n ∈ f.xq, NoNul n.name) →
    Reflects (loadAll s live files).1 (loadAll s live files).2.xq
  | [], _, _, _, h, _, _ => h
  | f :: rest, s, live, hx, h, hl, hn => by
    unfold loadAll
    obtain ⟨h1, g1⟩ := C17_services_load s live f hx h hl (hn f (List.mem_cons_self ..))
    exact C17_services_loads rest _ _ ((applyConfig_frame s live f false).1.trans hx) h1 g1
      (fun f' hf' => hn f' (List.mem_cons_of_mem _ hf'))

/-! ### the rule table over a whole history -/

/-- the rules a class section compiles to -/
def compileSec (sec : List CNode) : List Rule := (sec.filter (!·.isString)).map compileRule

/-- the daemon's rule table is the compilation of `cls`, up to hit counters -/
def RulesReflect (s : State) (cls : List CNode) : Prop := RulesAre (eraseR (compileSec cls)) s

theorem eraseR_inherit (new old : List Rule) : eraseR (inheritAssigned new old) = eraseR new := by
  unfold eraseR
  have e : ∀ (l : List Rule), l.map kernelR = l.map (fun r => { r with assigned := 0 }) := fun l => rfl
  rw [e, e, C17_inherit_same_rules]

/-- **C17, rule table, one load**: after a first load, and after a reload of a daemon whose table
    reflected the live section, the table reflects the new file's section - whether or not the
    module was told (it is told exactly when the merged section differs from the live one) -/
theorem C17_rules_load (s : State) (live new : Config) (first : Bool) (hc : s.hasClass = true)
    (h : first = true ∨ RulesReflect s live.cls) :
    RulesReflect (applyConfig s live new first).1 (applyConfig s live new first).2.cls := by
  unfold applyConfig
  dsimp only
  have f := deliverXq_frame { s with timeout := new.timeout } live.xq (mergeSection live.xq new.xq) first
  dsimp only at f
  have hrules : ∀ (s1 : State), s1.hasClass = true → s1.rules = s.rules →
      RulesReflect (if s1.hasClass && (first || mergeSection live.cls new.cls != live.cls)
        then classChanged s1 (mergeSection live.cls new.cls) else s1) (mergeSection live.cls new.cls) := by
    intro s1 h1 hr
    by_cases hd : (first || mergeSection live.cls new.cls != live.cls) = true
    · simp only [h1, hd, Bool.and_self, if_true]
      unfold RulesReflect RulesAre classChanged
      exact eraseR_inherit _ _
    · simp only [h1, hd, Bool.true_and, if_false, Bool.false_eq_true]
      simp only [Bool.or_eq_true, not_or, Bool.not_eq_true, bne_eq_false_iff_eq] at hd
      rcases h with h | h
      · rw [h] at hd; exact absurd hd.1 (by simp)
      · unfold RulesReflect RulesAre at h ⊢
        rw [hr, hd.2]; exact h
  split
  · exact hrules _ (by rw [f.2.2.1]; exact hc) f.2.2.2.2.2.1
  · exact hrules _ hc rfl

/-- **C17 / C11, rule table, any history**: input lines and timer expiries - whatever they are, with
    clients waiting or not - change nothing but hit counters -/
theorem C17_rules_history (s : State) (cls : List CNode) (h : RulesReflect s cls) (ops : List Op)
    (s' : State) (outs : List (List Bytes)) (hr : runOps s ops = .ok (s', outs)) : RulesReflect s' cls :=
  runOps_rules ops s h s' outs hr

/-- a session: histories of input and timer expiries, separated by reloads -/
inductive Seg where
  | ops (l : List Op)
  | reload (cfg : Config)

def runSession : State × Config → List Seg → M (State × Config)
  | sc, [] => pure sc
  | (s, live), .ops l :: rest => do
    let (s1, _) ← runOps s l
    runSession (s1, live) rest
  | (s, live), .reload cfg :: rest => runSession (applyConfig s live cfg false) rest

theorem applyConfig_hasClass (s : State) (live new : Config) (first : Bool) :
    (applyConfig s live new first).1.hasClass = s.hasClass := (applyConfig_frame s live new first).2.1

theorem runOps_hasClass : ∀ (ops : List Op) (s s' : State) (outs : List (List Bytes)), Inv s →
    runOps s ops = .ok (s', outs) → s'.hasClass = s.hasClass ∧ Inv s'
  | [], s, s', outs, hi, he => by
    simp only [runOps, pure, Except.pure, Except.ok.injEq, Prod.mk.injEq] at he
    obtain ⟨rfl, _⟩ := he; exact ⟨rfl, hi⟩
  | op :: ops, s, s', outs, hi, he => by
    simp only [runOps, bind, Except.bind] at he
    split at he
    · cases he
    · rename_i v1 h1
      obtain ⟨s1, o1⟩ := v1
      dsimp only at he
      split at he
      · cases he
      · rename_i v2 h2
        obtain ⟨s2, os⟩ := v2
        simp only [pure, Except.pure, Except.ok.injEq, Prod.mk.injEq] at he
        obtain ⟨rfl, _⟩ := he
        obtain ⟨i1, ss⟩ := stepOp_inv hi h1
        obtain ⟨e2, i2⟩ := runOps_hasClass ops s1 s2 os i1 h2
        exact ⟨e2.trans ss.2, i2⟩

/-- a reload keeps the table invariant (it touches no request) -/
theorem applyConfig_inv (s : State) (live new : Config) (first : Bool) (hi : Inv s) : Inv (applyConfig s live new first).1 := by
  have f := applyConfig_frame s live new first
  have r := applyConfig_reqs' s live new first
  exact ⟨by rw [r]; exact hi.sorted, by rw [r]; exact hi.noResp, by rw [f.1, f.2.1]; exact hi.deps, by rw [f.2.2.1]; exact hi.accPos⟩

/-- **C17 / C11, the rule table over a whole session**: from a daemon whose table reflects its live
    class section, after any sequence of histories (input chunks, timer expiries) and reloads, the
    table is the compilation of the class section of the last file loaded, up to hit counters -/
theorem C17_rules_session : ∀ (segs : List Seg) (s : State) (live : Config) (s' : State) (live' : Config),
    Inv s → s.hasClass = true → RulesReflect s live.cls → runSession (s, live) segs = .ok (s', live') →
    RulesReflect s' live'.cls
  | [], s, live, s', live', _, _, h, he => by
    simp only [runSession, pure, Except.pure, Except.ok.injEq, Prod.mk.injEq] at he
    obtain ⟨rfl, rfl⟩ := he; exact h
  | .ops l :: rest, s, live, s', live', hi, hc, h, he => by
    simp only [runSession, bind, Except.bind] at he
    split at he
    · cases he
    · rename_i v hv
      obtain ⟨s1, o1⟩ := v
      dsimp only at he
      obtain ⟨e1, i1⟩ := runOps_hasClass l s s1 o1 hi hv
      exact C17_rules_session rest s1 live s' live' i1 (e1.trans hc) (C17_rules_history s live.cls h l s1 o1 hv) he
  | .reload cfg :: rest, s, live, s', live', hi, hc, h, he => by
    simp only [runSession] at he
    have hl := C17_rules_load s live cfg false hc (Or.inr h)
    exact C17_rules_session rest _ _ s' live' (applyConfig_inv s live cfg false hi)
      ((applyConfig_hasClass s live cfg false).trans hc) hl he

/-- … in particular from start-up on any file -/
theorem C17_rules_from_boot (hasXq : Bool) (lim : Limits) (hacc : 0 < lim.account) (cfg : Config) (segs : List Seg)
    (s' : State) (live' : Config) (hx : hasXq = true)
    (he : runSession (applyConfig { hasXq := hasXq, hasClass := true, lim := lim } {} cfg true) segs = .ok (s', live')) :
    RulesReflect s' live'.cls := by
  have h0 : Inv ({ hasXq := hasXq, hasClass := true, lim := lim } : State) :=
    ⟨by simp [ids], by simp, fun _ => hx, hacc⟩
  have hi := applyConfig_inv _ {} cfg true h0
  have hc : (applyConfig ({ hasXq := hasXq, hasClass := true, lim := lim } : State) {} cfg true).1.hasClass = true :=
    (applyConfig_hasClass _ _ _ _).trans rfl
  exact C17_rules_session segs _ _ s' live' hi hc (C17_rules_load _ {} cfg true rfl (Or.inl rfl)) he

/-- the session theorem is about runs that exist: a start on one rule, no input, then a look at the table -/
example : ∃ r, runSession (applyConfig ({ hasXq := true, hasClass := true } : State) {}
    { cls := [{ name := b "a", isString := false, kids := [(b "class", b "users")] }] } true) [.ops []] = .ok r :=
  ⟨_, rfl⟩

/-- the hypotheses are met: the empty table of a fresh start, and a two-entry section -/
example : TableOK [] ∧ NoRefs [] := ⟨⟨(fun x hx => by cases hx), (fun i j x y hx => by simp at hx)⟩, fun x hx => by cases hx⟩
example : SecDistinct [{ name := b "a.srv", value := b "login" }, { name := b "b.srv", value := b "dronecheck" }] := by
  unfold SecDistinct
  simp only [List.pairwise_cons, List.mem_cons, List.mem_singleton, List.not_mem_nil, List.Pairwise.nil]
  refine ⟨?_, ?_, trivial⟩
  · intro c hc _ _
    rcases hc with rfl | h
    · decide
    · cases h
  · intro c hc; cases hc
example : Wants [{ name := b "a.srv", value := b "login" }, { name := b "b.srv", value := b "dronecheck" }] (b "b.srv") .dronecheck :=
  ⟨{ name := b "b.srv", value := b "dronecheck" }, by simp, rfl, rfl, by decide⟩

example : GoodSec [{ name := b "a.srv", value := b "login" }, { name := b "b.srv", value := b "dronecheck" }] := by
  refine ⟨?_, ?_⟩
  · unfold SecDistinct
    simp only [List.pairwise_cons, List.mem_cons, List.not_mem_nil, List.Pairwise.nil]
    refine ⟨?_, ?_, trivial⟩
    · intro c hc _ _
      rcases hc with rfl | h
      · decide
      · cases h
    · intro c hc; cases hc
  · intro n hn
    simp only [List.mem_cons, List.not_mem_nil, or_false] at hn
    rcases hn with rfl | rfl <;> (unfold NoNul; decide)

/-- what the module is shown when `a.srv` changes protocol, `b.srv` goes and `c.srv` comes: the
    section with `a.srv` already new and `b.srv` still there, then without `b.srv` (`c.srv` is
    not spliced in yet), then (the membership changed) the new section -/
example : rescanWalk []
    [{ name := b "a.srv", value := b "login" }, { name := b "b.srv", value := b "login" }]
    [{ name := b "a.srv", value := b "dronecheck" }, { name := b "c.srv", value := b "login" }] false =
    [[{ name := b "a.srv", value := b "dronecheck" }, { name := b "b.srv", value := b "login" }],
     [{ name := b "a.srv", value := b "dronecheck" }],
     [{ name := b "a.srv", value := b "dronecheck" }, { name := b "c.srv", value := b "login" }]] := by
  simp (config := { decide := true }) [rescanWalk, cnodeEqKey, cnodeLt]

/-- an entry only respelled: no entry hook runs, the section's hook does -/
example : rescanWalk [] [{ name := b "A.srv", value := b "login" }] [{ name := b "a.srv", value := b "login" }] false =
    [[{ name := b "a.srv", value := b "login" }]] := by
  simp (config := { decide := true }) [rescanWalk, cnodeEqKey, cnodeLt]

/-- nothing changed: the module is shown nothing -/
example : rescanWalk [] [{ name := b "a.srv", value := b "login" }] [{ name := b "a.srv", value := b "login" }] false = [] := by
  simp (config := { decide := true }) [rescanWalk, cnodeEqKey, cnodeLt]

end Iauthd.Properties
