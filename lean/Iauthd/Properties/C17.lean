import Iauthd.Proto.Reload17
import Iauthd.Proto.Deliver
import Iauthd.Proto.Reload17b
import Iauthd.Proto.Table
/-
  Property C17 — "A reload reaches the decision modules" (model part).  The observable
  statement (reloaded daemon = freshly started daemon on probe clients) is decided by the
  differential judge on the real code.  Proved here: how the model delivers a configuration.
-/
namespace Iauthd.Properties
open Iauthd Iauthd.Proto

/-- how a configuration is delivered: at start-up each module scans its section once; on a reload
    `iauth_xquery` rescans at every hook run of the merge (`rescanWalk`), `iauth_class` rebuilds its
    rules when its section differs from the live one in any way.  (On the pinned tree only membership
    changes were delivered.) -/
theorem C17_delivery (s : State) (live new : Config) (first : Bool) :
    (applyConfig s live new first).1 =
      (let s0 := { s with timeout := new.timeout }
       let s1 := if s0.hasXq then
                   (if first then servicesChanged s0 (mergeSection live.xq new.xq)
                    else (rescanWalk [] live.xq (mergeSection live.xq new.xq) false).foldl servicesChanged s0)
                 else s0
       if s1.hasClass && (first || mergeSection live.cls new.cls != live.cls)
       then classChanged s1 (mergeSection live.cls new.cls) else s1)
    ∧ (applyConfig s live new first).2 =
        { timeout := new.timeout, xq := mergeSection live.xq new.xq, cls := mergeSection live.cls new.cls } :=
  ⟨rfl, rfl⟩

/-- **C17, the reload reaches `iauth_xquery`**: whenever the module is shown anything during a
    reload, the last rescan it makes sees the string entries of the new file's section - names as the
    new file spells them, values as it gives them … -/
theorem C17_last_rescan (live new : Config) (sec : List CNode)
    (h : (rescanWalk [] live.xq (mergeSection live.xq new.xq) false).getLast? = some sec) :
    svcView sec = svcView (mergeSection live.xq new.xq) := by
  simpa using rescanWalk_last [] live.xq (mergeSection live.xq new.xq) false sec h

/-- … and it is shown nothing only when those entries are the ones it has already scanned -/
theorem C17_no_rescan (live new : Config) (h : rescanWalk [] live.xq (mergeSection live.xq new.xq) false = []) :
    svcView live.xq = svcView (mergeSection live.xq new.xq) :=
  rescanWalk_nil _ _ _ _ h

/-- so the state after a reload is a rescan of the new file's section (from some earlier table), or
    the state before it when that section says what the live one said -/
theorem C17_reload_is_rescan (s : State) (live new : Config) :
    (∃ s', deliverXq s live.xq (mergeSection live.xq new.xq) false = servicesChanged s' (mergeSection live.xq new.xq)) ∨
    (deliverXq s live.xq (mergeSection live.xq new.xq) false = s ∧ svcView live.xq = svcView (mergeSection live.xq new.xq)) := by
  unfold deliverXq
  simp only [Bool.false_eq_true, if_false]
  cases hl : (rescanWalk [] live.xq (mergeSection live.xq new.xq) false).getLast? with
  | none =>
    have hnil := List.getLast?_eq_none_iff.mp hl
    exact Or.inr ⟨by rw [hnil]; rfl, C17_no_rescan live new hnil⟩
  | some sec =>
    refine Or.inl ?_
    have hne : rescanWalk [] live.xq (mergeSection live.xq new.xq) false ≠ [] := by
      intro h; rw [h] at hl; cases hl
    have hd := List.dropLast_concat_getLast hne
    have hlast : (rescanWalk [] live.xq (mergeSection live.xq new.xq) false).getLast hne = sec := by
      rw [List.getLast?_eq_some_getLast hne] at hl; exact Option.some.inj hl
    refine ⟨(rescanWalk [] live.xq (mergeSection live.xq new.xq) false).dropLast.foldl servicesChanged s, ?_⟩
    rw [← servicesChanged_congr _ (C17_last_rescan live new sec hl)]
    conv => lhs; rw [← hd]
    rw [List.foldl_append, hlast]
    rfl

/-- **C17, live sections**: the configuration the daemon holds after a reload does not depend on
    the files loaded before - it is the one a fresh start on the new file holds, names spelled as
    the new file spells them.  (On the pinned tree an entry present in both files kept the
    spelling of the older file: finding F33.) -/
theorem C17_config_fresh (s s0 : State) (live new : Config) (first : Bool) :
    (applyConfig s live new first).2 = (applyConfig s0 {} new true).2 := rfl

/-- the rule vector after a rebuild is the compilation of the object children of the section,
    in section order, with hit counters inherited by name -/
theorem C17_rules (s : State) (sec : List CNode) :
    (classChanged s sec).rules = inheritAssigned ((sec.filter (!·.isString)).map compileRule) s.rules
    ∧ (classChanged s sec).nRuleNodes = sec.length := ⟨rfl, rfl⟩

/-- hit-counter inheritance does not change what a rule says -/
theorem C17_inherit_same_rules (new old : List Rule) :
    (inheritAssigned new old).map (fun r => { r with assigned := 0 }) = new.map (fun r => { r with assigned := 0 }) := by
  induction new generalizing old with
  | nil => rfl
  | cons r rs ih =>
    unfold inheritAssigned
    dsimp only
    split
    · split <;> simp [ih]
    · simp [ih]

/-- a new request uses the timeout of the configuration that is live when it is announced -/
theorem C17_timeout (s : State) (live new : Config) (first : Bool) :
    (applyConfig s live new first).1.timeout = new.timeout :=
  applyConfig_timeout s live new first

/-! ### the tables after a reload and after a fresh start -/

/-- **C17, service table**: when nobody waits for a service (no reference is outstanding), a rescan
    of the service section - from whatever table the earlier files left - yields a table that holds
    exactly the services the section names with a known protocol, each with that protocol (and every
    slot in use is configured: `servicesChanged_allConf`) -/
theorem C17_services (s : State) (sec : List CNode) (hok : TableOK s.svcs) (hr : NoRefs s.svcs)
    (hd : SecDistinct sec) (hn : ∀ n ∈ sec, NoNul n.name) (name : Bytes) (t : SvcTy) :
    (∃ y, some y ∈ (servicesChanged s sec).svcs ∧ y.name = name ∧ y.ty = t) ↔ Wants sec name t :=
  servicesChanged_exact s sec hok hr hd hn name t

/-- … hence the same services, with the same protocols, as a daemon freshly started on the section -/
theorem C17_services_fresh (s s0 : State) (sec : List CNode) (hok : TableOK s.svcs) (hr : NoRefs s.svcs)
    (h0 : s0.svcs = []) (hd : SecDistinct sec) (hn : ∀ n ∈ sec, NoNul n.name) (name : Bytes) (t : SvcTy) :
    (∃ y, some y ∈ (servicesChanged s sec).svcs ∧ y.name = name ∧ y.ty = t) ↔
    (∃ y, some y ∈ (servicesChanged s0 sec).svcs ∧ y.name = name ∧ y.ty = t) :=
  servicesChanged_fresh s s0 sec hok hr h0 hd hn name t

/-- **C17, rule table**: after a rebuild the rules are, up to their hit counters, the compilation of
    the section - the same list, in the same order, as after a fresh start on that section -/
theorem C17_rules_fresh (s s0 : State) (sec : List CNode) :
    eraseR (classChanged s sec).rules = eraseR (classChanged s0 sec).rules := by
  rw [(C17_rules s sec).1, (C17_rules s0 sec).1]
  unfold eraseR
  have e : ∀ (l : List Rule), l.map kernelR = l.map (fun r => { r with assigned := 0 }) := fun l => rfl
  rw [e, e, C17_inherit_same_rules, C17_inherit_same_rules]

/-! ### any number of reloads -/

/-- what a daemon nobody waits on keeps true of its service table: well formed, unreferenced, and
    holding exactly the services the live section names, each with the protocol it names -/
def Reflects (s : State) (live : List CNode) : Prop :=
  TableOK s.svcs ∧ NoRefs s.svcs ∧ ∀ name t, Has s name t ↔ Wants live name t

/-- a section the configuration set can hold: one string entry per name, no NUL in a name -/
def GoodSec (sec : List CNode) : Prop := SecDistinct sec ∧ ∀ n ∈ sec, NoNul n.name

/-- a fresh start reflects its file -/
theorem C17_reflects_start (s0 : State) (h0 : s0.svcs = []) (sec : List CNode) (hg : GoodSec sec) :
    Reflects (servicesChanged s0 sec) sec := by
  have hok : TableOK s0.svcs := by rw [h0]; exact ⟨(fun x hx => by cases hx), (fun i j x y hx => by simp at hx)⟩
  have hr : NoRefs s0.svcs := by rw [h0]; intro x hx; cases hx
  obtain ⟨k1, k2⟩ := servicesChanged_keeps s0 sec hok hr hg.2
  exact ⟨k1, k2, fun name t => servicesChanged_exact s0 sec hok hr hg.1 hg.2 name t⟩

/-- **C17 across a reload**: a daemon that reflects the live section reflects the new one after the
    reload, whichever hooks ran during the merge and however many intermediate rescans they caused -/
theorem C17_reflects_reload (s : State) (live xq : List CNode) (h : Reflects s live) (hl : GoodSec live) (hx : GoodSec xq) :
    Reflects (deliverXq s live xq false) xq := by
  obtain ⟨k1, k2⟩ := deliverXq_keeps s live xq false h.1 h.2.1 hl.2 hx.2
  exact ⟨k1, k2, fun name t => deliverXq_exact s live xq h.1 h.2.1 h.2.2 hl.2 hx.2 hx.1 name t⟩

/-- a run of reloads, each from the section the previous one installed -/
def reloadAll (s : State) (live : List CNode) : List (List CNode) → State × List CNode
  | [] => (s, live)
  | xq :: rest => reloadAll (deliverXq s live xq false) xq rest

/-- **C17 across any history of reloads**: started on one file and reloaded with any number of
    others, the daemon's service table is the one the last file names - the one a daemon freshly
    started on that file has (`C17_reflects_start`) -/
theorem C17_reloads : ∀ (secs : List (List CNode)) (s : State) (live : List CNode), Reflects s live → GoodSec live →
    (∀ sec ∈ secs, GoodSec sec) → Reflects (reloadAll s live secs).1 (reloadAll s live secs).2
  | [], _, _, h, _, _ => h
  | xq :: rest, s, live, h, hl, hs => by
    unfold reloadAll
    exact C17_reloads rest _ xq (C17_reflects_reload s live xq h hl (hs xq (List.mem_cons_self ..))) (hs xq (List.mem_cons_self ..))
      (fun sec hm => hs sec (List.mem_cons_of_mem _ hm))

theorem C17_reloads_fresh (s0 s0' : State) (h0 : s0.svcs = []) (h0' : s0'.svcs = []) (first : List CNode) (secs : List (List CNode))
    (hf : GoodSec first) (hs : ∀ sec ∈ secs, GoodSec sec) (name : Bytes) (t : SvcTy) :
    Has (reloadAll (servicesChanged s0 first) first secs).1 name t ↔
    Has (servicesChanged s0' (reloadAll (servicesChanged s0 first) first secs).2) name t := by
  have hlast : GoodSec (reloadAll (servicesChanged s0 first) first secs).2 := by
    have key : ∀ (secs : List (List CNode)) (s : State) (live : List CNode), GoodSec live → (∀ sec ∈ secs, GoodSec sec) →
        GoodSec (reloadAll s live secs).2 := by
      intro secs
      induction secs with
      | nil => intro s live hl _; exact hl
      | cons x r ih =>
        intro s live _ hs
        unfold reloadAll
        exact ih _ x (hs x (List.mem_cons_self ..)) (fun sec hm => hs sec (List.mem_cons_of_mem _ hm))
    exact key secs _ first hf hs
  have a := (C17_reloads secs _ first (C17_reflects_start s0 h0 first hf) hf hs).2.2 name t
  have c := (C17_reflects_start s0' h0' _ hlast).2.2 name t
  rw [a, c]

/-- the hypotheses are met: the empty table of a fresh start, and a two-entry section -/
example : TableOK [] ∧ NoRefs [] := ⟨⟨(fun x hx => by cases hx), (fun i j x y hx => by simp at hx)⟩, fun x hx => by cases hx⟩
example : SecDistinct [{ name := b "a.srv", value := b "login" }, { name := b "b.srv", value := b "dronecheck" }] := by
  unfold SecDistinct
  simp only [List.pairwise_cons, List.mem_cons, List.mem_singleton, List.not_mem_nil, List.Pairwise.nil]
  refine ⟨?_, ?_, trivial⟩
  · intro c hc _ _
    rcases hc with rfl | h
    · decide
    · cases h
  · intro c hc; cases hc
example : Wants [{ name := b "a.srv", value := b "login" }, { name := b "b.srv", value := b "dronecheck" }] (b "b.srv") .dronecheck :=
  ⟨{ name := b "b.srv", value := b "dronecheck" }, by simp, rfl, rfl, by decide⟩

example : GoodSec [{ name := b "a.srv", value := b "login" }, { name := b "b.srv", value := b "dronecheck" }] := by
  refine ⟨?_, ?_⟩
  · unfold SecDistinct
    simp only [List.pairwise_cons, List.mem_cons, List.not_mem_nil, List.Pairwise.nil]
    refine ⟨?_, ?_, trivial⟩
    · intro c hc _ _
      rcases hc with rfl | h
      · decide
      · cases h
    · intro c hc; cases hc
  · intro n hn
    simp only [List.mem_cons, List.not_mem_nil, or_false] at hn
    rcases hn with rfl | rfl <;> (unfold NoNul; decide)

/-- what the module is shown when `a.srv` changes protocol, `b.srv` goes and `c.srv` comes: the
    section with `a.srv` already new and `b.srv` still there, then without `b.srv` (`c.srv` is
    not spliced in yet), then (the membership changed) the new section -/
example : rescanWalk []
    [{ name := b "a.srv", value := b "login" }, { name := b "b.srv", value := b "login" }]
    [{ name := b "a.srv", value := b "dronecheck" }, { name := b "c.srv", value := b "login" }] false =
    [[{ name := b "a.srv", value := b "dronecheck" }, { name := b "b.srv", value := b "login" }],
     [{ name := b "a.srv", value := b "dronecheck" }],
     [{ name := b "a.srv", value := b "dronecheck" }, { name := b "c.srv", value := b "login" }]] := by
  simp (config := { decide := true }) [rescanWalk, cnodeEqKey, cnodeLt]

/-- an entry only respelled: no entry hook runs, the section's hook does -/
example : rescanWalk [] [{ name := b "A.srv", value := b "login" }] [{ name := b "a.srv", value := b "login" }] false =
    [[{ name := b "a.srv", value := b "login" }]] := by
  simp (config := { decide := true }) [rescanWalk, cnodeEqKey, cnodeLt]

/-- nothing changed: the module is shown nothing -/
example : rescanWalk [] [{ name := b "a.srv", value := b "login" }] [{ name := b "a.srv", value := b "login" }] false = [] := by
  simp (config := { decide := true }) [rescanWalk, cnodeEqKey, cnodeLt]

end Iauthd.Properties
