import Iauthd.Proto.Props
import Iauthd.Proto.Count10
import Iauthd.Properties.C01
/-
  Property C10 — "Request bookkeeping balances over any history" (model part).
  The table grows only by an announcement (by one, or not at all when a live id is replaced)
  and shrinks only by one request per disconnect / registered / verdict; the statistics
  reply prints exactly the table size; ids stay unique (`Inv`), so the size is the number of
  live clients.  Timers are part of the request record (`timer`), so they go with it; the
  real libevent timers are counted by the harness (runtime facet).

  **`C10_history`**: for every history of input chunks and timer expiries from the started daemon,
  the number of live instances the reader of both channels counts (`Spec01.T1.n`: plus one when an
  announcement opens an instance under an id that had none, minus one when `D`, `T` or a verdict
  closes one - "announced and neither withdrawn, reported registered nor seen decided;
  re-announcing a live id replaces it") is the size of the request table, and that size is the
  figure a statistics reply prints at that point (`C10_in_use_figure`).
-/
namespace Iauthd.Properties
open Iauthd Iauthd.Proto

theorem C10_handler_shrinks_only {s s' : State} {r : Req} {f : Ctx → M Ctx} {out : List Bytes}
    (h : withReq s r f = .ok (s', out)) : s'.reqs.length ≤ s.reqs.length := withReq_length h

theorem C10_announce (r : Req) (reqs : List Req) :
    reqs.length ≤ (insertReq r reqs).length ∧ (insertReq r reqs).length ≤ reqs.length + 1 :=
  length_insertReq_le r reqs

theorem C10_in_use_figure (s : State) :
    collectStats.reportStatsCore s =
      sendRaw (b "S iauth :" ++ decNat s.stats.reqAllocs ++ b "-" ++ decNat s.stats.reqFrees ++ b " reqs alloc, "
        ++ decNat s.reqs.length ++ b " in use; " ++ decNat s.stats.dataFrees ++ b " data frees") := stats_in_use s

theorem C10_ids_unique (hasXq hasClass : Bool) (hdep : hasClass = true → hasXq = true) (ops : List Op) :
    ∃ s' outs, runOps { hasXq := hasXq, hasClass := hasClass } ops = .ok (s', outs)
      ∧ (ids s'.reqs).Pairwise (· < ·) :=
  let ⟨s', outs, h, hi, _⟩ := runOps_total_inv ops _ (inv_init hasXq hasClass hdep)
  ⟨s', outs, h, hi.sorted⟩


/-- the start state satisfies the table invariant -/
theorem start_inv (hasXq hasClass : Bool) (hdep : hasClass = true → hasXq = true) (lim : Limits) (hacc : 0 < lim.account)
    (cfg : Config) : Inv (applyConfig (bootState hasXq hasClass lim) {} cfg true).1 := by
  have hreqs : (applyConfig (bootState hasXq hasClass lim) {} cfg true).1.reqs = [] := by
    rw [applyConfig_reqs]; rfl
  have hst : (applyConfig (bootState hasXq hasClass lim) {} cfg true).1.hasXq = hasXq ∧
      (applyConfig (bootState hasXq hasClass lim) {} cfg true).1.hasClass = hasClass ∧
      (applyConfig (bootState hasXq hasClass lim) {} cfg true).1.lim = lim := by
    have f := applyConfig_frame (bootState hasXq hasClass lim) {} cfg true
    exact ⟨f.1, f.2.1, f.2.2.1⟩
  refine ⟨(by rw [hreqs]; simp [ids]), (by intro r hr; rw [hreqs] at hr; cases hr), ?_, ?_⟩
  · rw [hst.1, hst.2.1]; exact hdep
  · rw [hst.2.2]; exact hacc

/-- **C10 (the figure)**: after any history, the reader's count of live instances is the size of
    the request table — the number every `S iauth` line prints. -/
theorem C10_history (hasXq hasClass : Bool) (hdep : hasClass = true → hasXq = true) (lim : Limits) (hl : LimOK lim)
    (hacc : 0 < lim.account) (cfg : Config) (hc : ConfigOK cfg)
    (ops : List Op) (s' : State) (trs : List (List Step1))
    (hrun : runTrace (applyConfig (bootState hasXq hasClass lim) {} cfg true).1 ops = .ok (s', trs))
    (hann : NoAnnM1 trs.flatten) :
    (Spec01.run {} trs.flatten).n = s'.reqs.length ∧
    collectStats.reportStatsCore s' =
      sendRaw (b "S iauth :" ++ decNat s'.stats.reqAllocs ++ b "-" ++ decNat s'.stats.reqFrees ++ b " reqs alloc, "
        ++ decNat (Spec01.run {} trs.flatten).n ++ b " in use; " ++ decNat s'.stats.dataFrees ++ b " data frees") := by
  have h0 := (C09_start hasXq hasClass lim hl cfg hc [] Clean.nil).1
  have hreqs : (applyConfig (bootState hasXq hasClass lim) {} cfg true).1.reqs = [] := by
    rw [applyConfig_reqs]; rfl
  have hsim : Sim (applyConfig (bootState hasXq hasClass lim) {} cfg true).1 {} := by
    refine ⟨?_, ?_, rfl⟩
    · intro id; rw [hreqs]; rfl
    · intro id r i hr; rw [hreqs] at hr; cases hr
  have hm : NoM1 (applyConfig (bootState hasXq hasClass lim) {} cfg true).1 := by
    intro r hr; rw [hreqs] at hr; cases hr
  obtain ⟨_, sim', _⟩ := runTrace_sim ops _ {} h0 hsim hm s' trs hrun hann
  -- the table invariant at the end of the run
  have hinv : Inv s' := by
    obtain ⟨s2, outs, hr2, hi2, _⟩ := runOps_total_inv ops _ (start_inv hasXq hasClass hdep lim hacc cfg)
    rw [runTrace_runOps, hrun] at hr2
    simp only [Except.map, Except.ok.injEq, Prod.mk.injEq] at hr2
    rw [hr2.1]; exact hi2
  have hcnt := count_eq sim' (Fin1.run trs.flatten Fin1.init) hinv
  exact ⟨hcnt, by rw [hcnt]; exact stats_in_use s'⟩

/-- non-vacuity: the count goes up with an announcement, not with a re-announcement, and down with
    `D` from the server or a verdict from the daemon -/
example : (Spec01.run {} [(some exAnn, [])]).n = 1 := by decide
example : (Spec01.run {} [(some exAnn, []), (some exAnn, [])]).n = 1 := by decide
example : (Spec01.run {} [(some exAnn, []), (some (b "5 D"), [])]).n = 0 := by decide
example : (Spec01.run {} [(some exAnn, []), (some (b "6 C 1.2.3.4 1 1.1.1.1 2"), []), (none, [exD])]).n = 1 := by decide

end Iauthd.Properties
