import Iauthd.Proto.Props
/-
  Property C10 — "Request bookkeeping balances over any history" (model part).
  The table grows only by an announcement (by one, or not at all when a live id is replaced)
  and shrinks only by one request per disconnect / registered / verdict; the statistics
  reply prints exactly the table size; ids stay unique (`Inv`), so the size is the number of
  live clients.  Timers are part of the request record (`timer`), so they go with it; the
  real libevent timers are counted by the harness (runtime facet).
-/
namespace Iauthd.Properties
open Iauthd Iauthd.Proto

theorem C10_handler_shrinks_only {s s' : State} {r : Req} {f : Ctx → M Ctx} {out : List Bytes}
    (h : withReq s r f = .ok (s', out)) : s'.reqs.length ≤ s.reqs.length := withReq_length h

theorem C10_announce (r : Req) (reqs : List Req) :
    reqs.length ≤ (insertReq r reqs).length ∧ (insertReq r reqs).length ≤ reqs.length + 1 :=
  length_insertReq_le r reqs

theorem C10_in_use_figure (s : State) :
    collectStats.reportStatsCore s =
      sendRaw (b "S iauth :" ++ decNat s.stats.reqAllocs ++ b "-" ++ decNat s.stats.reqFrees ++ b " reqs alloc, "
        ++ decNat s.reqs.length ++ b " in use; " ++ decNat s.stats.dataFrees ++ b " data frees") := stats_in_use s

theorem C10_ids_unique (hasXq hasClass : Bool) (hdep : hasClass = true → hasXq = true) (ops : List Op) :
    ∃ s' outs, runOps { hasXq := hasXq, hasClass := hasClass } ops = .ok (s', outs)
      ∧ (ids s'.reqs).Pairwise (· < ·) :=
  let ⟨s', outs, h, hi, _⟩ := runOps_total_inv ops _ (inv_init hasXq hasClass hdep)
  ⟨s', outs, h, hi.sorted⟩

end Iauthd.Properties
