import Iauthd.Proto.Holds
import Iauthd.Proto.Deliver
import Iauthd.Proto.Settle03H
/-
  Property C03 — "No stuck clients: the verdict comes as soon as it can" (model part).

  * `C03_gate_complete`: whenever the gate runs on a request that has no hold, every required
    flag and no soft hold (or an expired timeout), the request is decided in that very call;
  * `C03_counters`: the counters the gate looks at are exactly the sets (never negative,
    never stale) in every reachable state — this is what failed on the pinned tree (second
    OK, blank account, reply after timeout);
  * every handler that can change one of those conditions ends in the gate: this is by
    definition of `reqEvent` and `xqFinish` (each branch is `gate st …`), and the password
    handler calls it too (the F6 repair);
  * `C03_timeout_sticky`: the expiry is recorded in a flag that nothing clears.

  **`C03_history`** puts these together into the statement about histories: after *every* history
  of input chunks (any bytes, any chunking) and timer expiries, no request that is still in the
  table could be accepted - none has, at the same time, no unmet +! demand, all the data the
  loaded modules ask for (or a hurry-up) and no unanswered query (or an expired timeout).  So a
  client for which these conditions have come true is no longer waiting at the end of the very
  step that made them true: it was decided in that step (`C03_gate_complete`).  `C03_reload`: a
  configuration reload does not change this.
-/
namespace Iauthd.Properties
open Iauthd Iauthd.Proto

theorem C03_gate_complete (st : Static) (c c' : Ctx) (h : gate st c = .ok c')
    (h0 : c.req.holds = 0) (hr : c.req.flags.responded = false) (hs : st.need.subset c.req.flags = true)
    (hsoft : c.req.soft = 0 ∨ c.req.flags.timedOut = true) : c'.gone = true :=
  gate_removes_if st c c' h h0 hr hs hsoft

theorem C03_counters (hasXq hasClass : Bool) (hdep : hasClass = true → hasXq = true) (ops : List Op)
    (s' : State) (outs : List (List Bytes))
    (h : runOps { hasXq := hasXq, hasClass := hasClass } ops = .ok (s', outs)) : ∀ r ∈ s'.reqs, HoldInv r :=
  runOps_hold ops _ (inv_init hasXq hasClass hdep) (by intro r hr; simp at hr) s' outs h

/-- the password handler ends in the gate (the handler that did not, on the pinned tree) -/
theorem C03_password_gated (st : Static) (c : Ctx) (p : Bytes) :
    reqEvent st c (.password (some p)) =
      (do let c1 := updReq c fun r => { r with flags := { r.flags with gotPass := true } }
          let c2 ← if st.hasXq then xqPassword c1 (some p) else pure c1
          gate st c2) := rfl

/-- the reply handler's common tail ends in the gate -/
theorem C03_reply_gated (st : Static) (i : Nat) (c : Ctx) (cli : XqCli) (srv : Svc) :
    xqFinish st i c cli srv = gate st (xqFinishPre i c cli srv) := xqFinish_eq st i c cli srv

/-- the timeout handler sets the sticky flag before it runs the gate -/
theorem C03_timeout_sticky (st : Static) (c : Ctx) :
    reqEvent st c .timeout =
      gate st (updReq c fun r => { r with soft := 0, timer := .fired, flags := { r.flags with timedOut := true } }) := rfl


/-- **C03, every history**: in every reachable state, no stored request satisfies the acceptance
    condition - in terms of the two counters and, equivalently, in terms of what they count. -/
theorem C03_history (hasXq hasClass : Bool) (hdep : hasClass = true → hasXq = true) (ops : List Op)
    (s' : State) (outs : List (List Bytes))
    (h : runOps { hasXq := hasXq, hasClass := hasClass } ops = .ok (s', outs)) :
    (∀ r ∈ s'.reqs, ¬ (r.holds = 0 ∧ s'.need.subset r.flags = true ∧ (r.soft = 0 ∨ r.flags.timedOut = true))) ∧
    (∀ r ∈ s'.reqs, ∀ cli, r.xq = some cli →
      ¬ (¬ (cli.modeBang = true ∧ r.account = []) ∧ s'.need.subset r.flags = true
          ∧ (cli.ref = [] ∨ r.flags.timedOut = true))) := by
  have hi0 := inv_init hasXq hasClass hdep
  have hset0 : Settled ({ hasXq := hasXq, hasClass := hasClass } : State).static.need { hasXq := hasXq, hasClass := hasClass } := by
    intro r hr; simp at hr
  have hs := runOps_settled _ ops _ hi0 rfl hset0 s' outs h
  obtain ⟨s2, o2, h2, hi2, hst⟩ := runOps_total_inv ops _ hi0
  rw [h] at h2
  simp only [Except.ok.injEq, Prod.mk.injEq] at h2
  obtain ⟨rfl, _⟩ := h2
  have hneed : s'.need = ({ hasXq := hasXq, hasClass := hasClass } : State).static.need := by
    have := need_same hst
    simpa [State.static] using this
  have hh := runOps_hold ops _ hi0 (by intro r hr; simp at hr) s' outs h
  constructor
  · intro r hr; rw [hneed]; exact hs r hr
  · intro r hr cli hx hc
    apply hs r hr
    rw [← hneed]
    exact (gate_condition_iff s'.need r cli hx (hh r hr)).mpr hc

/-- a reload changes neither the requests nor the set of loaded modules -/
theorem C03_reload (need : Flags) (s : State) (h : Settled need s) (live new : Config) (first : Bool) :
    Settled need (applyConfig s live new first).1 := by
  have e : (applyConfig s live new first).1.reqs = s.reqs := applyConfig_reqs' s live new first
  intro r hr; rw [e] at hr; exact h r hr

/-- non-vacuity: the condition is satisfiable (such a request is what the gate accepts), so the
    theorem says something: it is never found in the table -/
example : Ready ({ gotHost := true } : Flags) ({ client := 5, serial := 1, flags := { gotHost := true } } : Req) := by
  simp [Ready, Flags.subset]

end Iauthd.Properties
