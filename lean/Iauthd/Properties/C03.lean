import Iauthd.Proto.Holds
/-
  Property C03 — "No stuck clients: the verdict comes as soon as it can" (model part).

  * `C03_gate_complete`: whenever the gate runs on a request that has no hold, every required
    flag and no soft hold (or an expired timeout), the request is decided in that very call;
  * `C03_counters`: the counters the gate looks at are exactly the sets (never negative,
    never stale) in every reachable state — this is what failed on the pinned tree (second
    OK, blank account, reply after timeout);
  * every handler that can change one of those conditions ends in the gate: this is by
    definition of `reqEvent` and `xqFinish` (each branch is `gate st …`), and the password
    handler calls it too (the F6 repair);
  * `C03_timeout_sticky`: the expiry is recorded in a flag that nothing clears.
-/
namespace Iauthd.Properties
open Iauthd Iauthd.Proto

theorem C03_gate_complete (st : Static) (c c' : Ctx) (h : gate st c = .ok c')
    (h0 : c.req.holds = 0) (hr : c.req.flags.responded = false) (hs : st.need.subset c.req.flags = true)
    (hsoft : c.req.soft = 0 ∨ c.req.flags.timedOut = true) : c'.gone = true :=
  gate_removes_if st c c' h h0 hr hs hsoft

theorem C03_counters (hasXq hasClass : Bool) (hdep : hasClass = true → hasXq = true) (ops : List Op)
    (s' : State) (outs : List (List Bytes))
    (h : runOps { hasXq := hasXq, hasClass := hasClass } ops = .ok (s', outs)) : ∀ r ∈ s'.reqs, HoldInv r :=
  runOps_hold ops _ (inv_init hasXq hasClass hdep) (by intro r hr; simp at hr) s' outs h

/-- the password handler ends in the gate (the handler that did not, on the pinned tree) -/
theorem C03_password_gated (st : Static) (c : Ctx) (p : Bytes) :
    reqEvent st c (.password (some p)) =
      (do let c1 := updReq c fun r => { r with flags := { r.flags with gotPass := true } }
          let c2 ← if st.hasXq then xqPassword c1 (some p) else pure c1
          gate st c2) := rfl

/-- the reply handler's common tail ends in the gate -/
theorem C03_reply_gated (st : Static) (i : Nat) (c : Ctx) (cli : XqCli) (srv : Svc) :
    xqFinish st i c cli srv = gate st (xqFinishPre i c cli srv) := xqFinish_eq st i c cli srv

/-- the timeout handler sets the sticky flag before it runs the gate -/
theorem C03_timeout_sticky (st : Static) (c : Ctx) :
    reqEvent st c .timeout =
      gate st (updReq c fun r => { r with soft := 0, timer := .fired, flags := { r.flags with timedOut := true } }) := rfl

end Iauthd.Properties
