import Iauthd.Proto.Names
/-
  Property C01 — "One verdict per announced client, then silence" (model part).

  The observable statement (at most one verdict and one soft-done per announced instance,
  nothing naming the client afterwards, no verdict for an unknown id) is the Spec
  `Iauthd.Proto.Hist` evaluated by the judge on the implementation's traces.  What is
  proved here, for every history without bound, is the mechanism that makes it hold in the
  model that the correspondence check ties to the C code:

  * `C01_invariant`: from the freshly started daemon every finite history of input chunks
    (any bytes, any chunking) and timer expiries keeps the table invariant — ids unique, and
    no stored request has RESPONDED set;
  * `C01_verdict_removes`: a verdict (accept or kill) always removes the request it is about
    from the table, so every later line for that id is dropped by the dispatcher
    (`C01_unknown_id_inert`) until the id is announced again.
-/
namespace Iauthd.Properties
open Iauthd Iauthd.Proto

theorem C01_invariant (hasXq hasClass : Bool) (hdep : hasClass = true → hasXq = true) (ops : List Op) :
    ∃ s' outs, runOps { hasXq := hasXq, hasClass := hasClass } ops = .ok (s', outs) ∧ Inv s' :=
  let ⟨s', outs, h, hi, _⟩ := runOps_total_inv ops _ (inv_init hasXq hasClass hdep)
  ⟨s', outs, h, hi⟩

theorem C01_verdict_removes (st : Static) (c c' : Ctx) :
    (accept st c = .ok c' → c'.gone = true) ∧ (∀ reason, kill c reason = .ok c' → c'.gone = true) :=
  ⟨fun h => (accept_spec st c c' h).2, fun reason h => (kill_spec c c' reason h).2⟩

/-- a line for an id that is not in the table (and is neither an announcement nor addressed
    to id -1) changes nothing and emits nothing -/
theorem C01_unknown_id_inert (s : State) (raw : Bytes) (a0 : Bytes) (rest : List Bytes)
    (hargv : (tokenize raw).argv = a0 :: rest) (hid : (tokenize raw).id ≠ -1) (hcmd : a0.getD 0 0 ≠ 67)
    (hnot : findReq s.reqs (tokenize raw).id = none) : stepLine s raw = .ok (s, []) := by
  unfold stepLine
  simp only [hargv]
  have hc2 : (a0.getD 0 0 == 67) = false := by simpa using hcmd
  have hid2 : ((tokenize raw).id == -1) = false := by simpa using hid
  have hcn : (a0.getD 0 0 != 67) = true := by rw [bne, hc2]; rfl
  have hin : ((tokenize raw).id != -1) = true := by rw [bne, hid2]; rfl
  simp only [hc2, hid2, Bool.or_false, Bool.false_eq_true, if_false, hnot, Option.isNone_none,
    hcn, hin, Bool.and_self, if_true, pure, Except.pure]

/-- every line a step emits is a global message or is about (carries the id, or the routing
    tag, of) a request that was in the table when the step began; with `C01_invariant` and
    `C01_verdict_removes`: once the verdict is out, nothing names that client again until the
    server announces the id anew -/
theorem C01_names_live (s : State) (hi : Inv s) (raw : Bytes) (s' : State) (out : List Bytes)
    (h : stepLine s raw = .ok (s', out)) : ∀ l ∈ out, Global l ∨ ∃ r ∈ s.reqs, About r.client l :=
  stepLine_names s hi raw s' out h

/-- the same for a timer expiry: only the request whose timer fired can be named -/
theorem C01_timeout_names (s : State) (id : Int) (s' : State) (out : List Bytes) (fired : Bool)
    (h : stepTimeout s id = .ok (s', out, fired)) : ∀ l ∈ out, ∃ r ∈ s.reqs, About r.client l := by
  unfold stepTimeout at h
  split at h
  · rename_i r hf
    split at h
    · simp only [bind, Except.bind] at h
      split at h
      · cases h
      · rename_i v hv
        obtain ⟨s1, o1⟩ := v
        simp only [pure, Except.pure, Except.ok.injEq, Prod.mk.injEq] at h
        obtain ⟨_, rfl, _⟩ := h
        intro l hl
        exact ⟨r, (findReq_mem hf).1,
          withReq_about s r _ (fun c' hc => reqEvent_emits _ _ _ _ hc) s1 o1 hv l hl⟩
    · simp only [pure, Except.pure, Except.ok.injEq, Prod.mk.injEq] at h
      obtain ⟨_, rfl, _⟩ := h; intro l hl; simp at hl
  · simp only [pure, Except.pure, Except.ok.injEq, Prod.mk.injEq] at h
    obtain ⟨_, rfl, _⟩ := h; intro l hl; simp at hl

/-- non-vacuity: the only hypothesis (the class module is loaded together with xquery, as its
    constructor's `module_depends` enforces) holds for all three module sets of the daemon;
    concrete histories are exercised by the corpus through the compiled driver -/
example (ops : List Op) := C01_invariant false false (by decide) ops
example (ops : List Op) := C01_invariant true false (by decide) ops
example (ops : List Op) := C01_invariant true true (by decide) ops

end Iauthd.Properties
