import Iauthd.Proto.Names
import Iauthd.Proto.History01
import Iauthd.Properties.C09
/-
  Property C01 — "One verdict per announced client, then silence" (model part).

  The observable statement (at most one verdict and one soft-done per announced instance,
  nothing naming the client afterwards, no verdict for an unknown id) is the Spec
  `Iauthd.Proto.Hist` evaluated by the judge on the implementation's traces.  What is
  proved here, for every history without bound, is the mechanism that makes it hold in the
  model that the correspondence check ties to the C code:

  * `C01_invariant`: from the freshly started daemon every finite history of input chunks
    (any bytes, any chunking) and timer expiries keeps the table invariant — ids unique, and
    no stored request has RESPONDED set;
  * `C01_verdict_removes`: a verdict (accept or kill) always removes the request it is about
    from the table, so every later line for that id is dropped by the dispatcher
    (`C01_unknown_id_inert`) until the id is announced again.

  **The observable statement itself is `C01_history`**: for every history of input chunks (any
  bytes, any chunking) and timer expiries, from the started daemon, the line-level trace of the
  run — each complete input line with the lines written in response, each timer expiry with the
  lines written in response — is accepted by the reader `Spec01` (Proto/Spec01.lean): every
  client-directed line and every query names a live instance, an instance gets at most one
  soft-done and one verdict, the queries of an instance carry one serial, and nothing names an
  instance after its verdict.  `C01_trace_faithful` says that this trace is the run (`runOps`):
  same final state, same bytes written per operation.  `C01_reload` carries the reader's records
  across a configuration reload.  Hypotheses: an admissible configuration (bareword names, as for
  C09) and that no announcement uses the id -1, which the protocol reserves for "no client"
  (`-1 D` cannot withdraw such a request; the server never sends one).
  The driver evaluates `Spec01` on every implementation trace next to the trace judge.
-/
namespace Iauthd.Properties
open Iauthd Iauthd.Proto

theorem C01_invariant (hasXq hasClass : Bool) (hdep : hasClass = true → hasXq = true) (ops : List Op) :
    ∃ s' outs, runOps { hasXq := hasXq, hasClass := hasClass } ops = .ok (s', outs) ∧ Inv s' :=
  let ⟨s', outs, h, hi, _⟩ := runOps_total_inv ops _ (inv_init hasXq hasClass hdep)
  ⟨s', outs, h, hi⟩

theorem C01_verdict_removes (st : Static) (c c' : Ctx) :
    (accept st c = .ok c' → c'.gone = true) ∧ (∀ reason, kill c reason = .ok c' → c'.gone = true) :=
  ⟨fun h => (accept_spec st c c' h).2, fun reason h => (kill_spec c c' reason h).2⟩

/-- a line for an id that is not in the table (and is neither an announcement nor addressed
    to id -1) changes nothing and emits nothing -/
theorem C01_unknown_id_inert (s : State) (raw : Bytes) (a0 : Bytes) (rest : List Bytes)
    (hargv : (tokenize raw).argv = a0 :: rest) (hid : (tokenize raw).id ≠ -1) (hcmd : a0.getD 0 0 ≠ 67)
    (hnot : findReq s.reqs (tokenize raw).id = none) : stepLine s raw = .ok (s, []) := by
  unfold stepLine
  simp only [hargv]
  have hc2 : (a0.getD 0 0 == 67) = false := by simpa using hcmd
  have hid2 : ((tokenize raw).id == -1) = false := by simpa using hid
  have hcn : (a0.getD 0 0 != 67) = true := by rw [bne, hc2]; rfl
  have hin : ((tokenize raw).id != -1) = true := by rw [bne, hid2]; rfl
  simp only [hc2, hid2, Bool.or_false, Bool.false_eq_true, if_false, hnot, Option.isNone_none,
    hcn, hin, Bool.and_self, if_true, pure, Except.pure]

/-- every line a step emits is a global message or is about (carries the id, or the routing
    tag, of) a request that was in the table when the step began; with `C01_invariant` and
    `C01_verdict_removes`: once the verdict is out, nothing names that client again until the
    server announces the id anew -/
theorem C01_names_live (s : State) (hi : Inv s) (raw : Bytes) (s' : State) (out : List Bytes)
    (h : stepLine s raw = .ok (s', out)) : ∀ l ∈ out, Global l ∨ ∃ r ∈ s.reqs, About r.client l :=
  stepLine_names s hi raw s' out h

/-- the same for a timer expiry: only the request whose timer fired can be named -/
theorem C01_timeout_names (s : State) (id : Int) (s' : State) (out : List Bytes) (fired : Bool)
    (h : stepTimeout s id = .ok (s', out, fired)) : ∀ l ∈ out, ∃ r ∈ s.reqs, About r.client l := by
  unfold stepTimeout at h
  split at h
  · rename_i r hf
    split at h
    · simp only [bind, Except.bind] at h
      split at h
      · cases h
      · rename_i v hv
        obtain ⟨s1, o1⟩ := v
        simp only [pure, Except.pure, Except.ok.injEq, Prod.mk.injEq] at h
        obtain ⟨_, rfl, _⟩ := h
        intro l hl
        exact ⟨r, (findReq_mem hf).1,
          withReq_about s r _ (fun c' hc => reqEvent_emits _ _ _ _ hc) s1 o1 hv l hl⟩
    · simp only [pure, Except.pure, Except.ok.injEq, Prod.mk.injEq] at h
      obtain ⟨_, rfl, _⟩ := h; intro l hl; simp at hl
  · simp only [pure, Except.pure, Except.ok.injEq, Prod.mk.injEq] at h
    obtain ⟨_, rfl, _⟩ := h; intro l hl; simp at hl

/-- non-vacuity: the only hypothesis (the class module is loaded together with xquery, as its
    constructor's `module_depends` enforces) holds for all three module sets of the daemon;
    concrete histories are exercised by the corpus through the compiled driver -/
example (ops : List Op) := C01_invariant false false (by decide) ops
example (ops : List Op) := C01_invariant true false (by decide) ops
example (ops : List Op) := C01_invariant true true (by decide) ops


/-! ### the observable statement, for every history -/

theorem applyConfig_reqs (s : State) (live new : Config) (first : Bool) : (applyConfig s live new first).1.reqs = s.reqs :=
  applyConfig_reqs' s live new first

/-- **C01**: from the started daemon, every history of input chunks and timer expiries produces a
    trace the reader accepts. -/
theorem C01_history (hasXq hasClass : Bool) (lim : Limits) (hl : LimOK lim) (cfg : Config) (hc : ConfigOK cfg)
    (ops : List Op) (s' : State) (trs : List (List Step1))
    (hrun : runTrace (applyConfig (bootState hasXq hasClass lim) {} cfg true).1 ops = .ok (s', trs))
    (hann : NoAnnM1 trs.flatten) :
    (Spec01.run {} trs.flatten).ok = true := by
  have h0 := (C09_start hasXq hasClass lim hl cfg hc [] Clean.nil).1
  have hreqs : (applyConfig (bootState hasXq hasClass lim) {} cfg true).1.reqs = [] := by
    rw [applyConfig_reqs]; rfl
  have hsim : Sim (applyConfig (bootState hasXq hasClass lim) {} cfg true).1 {} := by
    refine ⟨?_, ?_, rfl⟩
    · intro id; rw [hreqs]; rfl
    · intro id r i hr; rw [hreqs] at hr; cases hr
  have hm : NoM1 (applyConfig (bootState hasXq hasClass lim) {} cfg true).1 := by
    intro r hr; rw [hreqs] at hr; cases hr
  exact (runTrace_sim ops _ {} h0 hsim hm s' trs hrun hann).2.1.ok

/-- the same from any state whose table the reader's records match (e.g. after a reload) -/
theorem C01_history_from (s : State) (t : Spec01.T1) (hs : StateOK s) (hsim : Sim s t) (hm : NoM1 s)
    (ops : List Op) (s' : State) (trs : List (List Step1)) (hrun : runTrace s ops = .ok (s', trs))
    (hann : NoAnnM1 trs.flatten) :
    (Spec01.run t trs.flatten).ok = true ∧ StateOK s' ∧ Sim s' (Spec01.run t trs.flatten) ∧ NoM1 s' :=
  let ⟨a, b', c⟩ := runTrace_sim ops s t hs hsim hm s' trs hrun hann
  ⟨b'.ok, a, b', c⟩

/-- the trace is the run: same final state, same bytes written by each operation -/
theorem C01_trace_faithful (s : State) (ops : List Op) :
    runOps s ops = (runTrace s ops).map fun r => (r.1, r.2.map outsOf) :=
  runTrace_runOps ops s

/-- a reload changes no request: the reader's records stay valid -/
theorem C01_reload (s : State) (t : Spec01.T1) (hsim : Sim s t) (hm : NoM1 s) (live new : Config) :
    Sim (applyConfig s live new false).1 t ∧ NoM1 (applyConfig s live new false).1 := by
  have e := applyConfig_reqs s live new false
  exact ⟨⟨by intro id; rw [e]; exact hsim.dom id, by intro id r i hr hi; rw [e] at hr; exact hsim.rel id r i hr hi, hsim.ok⟩,
    by intro r hr; rw [e] at hr; exact hm r hr⟩

/-! non-vacuity: the reader rejects what C01 forbids and accepts an ordinary conversation -/

def exAnn : Bytes := b "5 C 1.2.3.4 1000 10.0.0.1 6667"
def exD : Bytes := b "D 5 1.2.3.4 1000"
def exd : Bytes := b "d 5 1.2.3.4 1000"
def exX : Bytes := b "X login.srv 5_1 :LOGIN a b"

example : (Spec01.run {} [(some exAnn, [exd, exX]), (some (b "5 H"), [exD])]).ok = true := by decide
/-- a second verdict -/
example : (Spec01.run {} [(some exAnn, [exD]), (none, [exD])]).ok = false := by decide
/-- a second soft-done -/
example : (Spec01.run {} [(some exAnn, [exd]), (some (b "5 H"), [exd])]).ok = false := by decide
/-- a line after the verdict, in the same step -/
example : (Spec01.run {} [(some exAnn, [exD, exX])]).ok = false := by decide
/-- a verdict for an id nobody announced -/
example : (Spec01.run {} [(some (b "5 H"), [exD])]).ok = false := by decide
/-- the id is announced again: a new instance, a new verdict -/
example : (Spec01.run {} [(some exAnn, [exD]), (some exAnn, [exD])]).ok = true := by decide

end Iauthd.Properties
