import Iauthd.Log.ProofsFile
/-
  C18 — log routing follows the logs section.

  "A message of a given facility and severity is written to a destination exactly when the
   current logs section maps that facility (or *) with a severity set containing it (names, comma
   lists, <, <=, =, >=, > ranges, *) to that destination; an entry with unknown syntax is ignored
   as a whole.  After a reload the routing is that of the new section only, and every line written
   is complete and attributed to its facility and severity."

  The reading of the statement is `Iauthd.Log.Spec` (`routes`, `keyDenotes`, `sevDenotes`,
  `lineFor`); the code is `Iauthd.Log` (Model.lean).  Headline statements:

    C18          one rescan, from ANY well-formed state: a (facility, severity) message is written
                 to destination `d` exactly when `Spec.routes sec fac sev d`.
    C18_reload   (and C18_reload_F25: the same without the "process alive" hypothesis, for histories
                 inside assumption F25)  every reachable state (any sequence of loads, messages,
                 verbosity changes) routes as the CURRENT children of `logs` say: no stale routing
                 survives a reload, whatever hooks fired or did not fire during the merge (F14 included).
    C18_history  the history-level exact statement in the specification's own terms: in every
                 reachable live state, `d ∈ dests … ↔ Spec.routes cur fac sev d`, where `cur` is what
                 the specification calls the current section (`Spec.toEntries es` for the last file
                 `logs { es }` loaded — the later entry of a key and kind replaces the earlier —, `[]`
                 after a file without `logs`).
    C18_multiset the same with order and repetitions: the list of destinations is what the section
                 attaches for the facility followed by what it attaches for `*`.
    C18_lines    every record written is `(facility:severity) text` for the message's own facility
                 (up to case: the registered spelling), severity and text.

  History of the statement.  On snapshot 647fb5c the destination set was keyed with strcasecmp, so
  `file:a.log` and `file:A.log` were ONE destination object: C18 held only "up to the letter case
  of destination names", and failed outright within one section and across reloads
  (`Iauthd.Log.alias_same_section_witness`, `alias_history_witness`: kernel-checked evaluations of
  the pinned variant `rescanPinned`, kept for the record).  log.c now orders destinations with
  strcmp (`log_destination_cmp`); the statements below are about that code and carry no
  case-alias carve-out.
-/
namespace Iauthd.Properties
open Iauthd Iauthd.Log

/-- the specification's `routes` in terms of the attach operations of a section -/
theorem routes_iff_ops (sec : List Entry) (fac : Bytes) (sev : Nat) (hsev : sev < 6) (v : Bytes) :
    Spec.routes sec fac sev v = true ↔
      ∃ f, Op.att f sev v ∈ sectionOps sec ∧ (ciEq f fac = true ∨ f = bStar) := by
  unfold Spec.routes
  rw [List.any_eq_true]
  constructor
  · rintro ⟨e, he, h⟩
    rw [Bool.and_eq_true, decide_eq_true_eq] at h
    obtain ⟨f, S, hk, hf, hs⟩ := (parseKey_spec e.key fac sev hsev).mpr h.1
    exact ⟨f, mem_sectionOps_att.mpr ⟨e, he, S, hk, hs, h.2⟩, hf⟩
  · rintro ⟨f, hm, hf⟩
    obtain ⟨e, he, S, hk, hs, hv⟩ := mem_sectionOps_att.mp hm
    refine ⟨e, he, ?_⟩
    rw [Bool.and_eq_true, decide_eq_true_eq]
    exact ⟨(parseKey_spec e.key fac sev hsev).mp ⟨f, S, hk, hf, hs⟩, hv⟩

/-- **C18, one rescan**, in the property's own words: written to `d` exactly when the section
    routes there — whatever the state before. -/
theorem C18 {st : LogSt} (h : WF st) (sec : List Entry) (fac d : Bytes) (sev : Nat) (hsev : sev < 6) :
    d ∈ dests (rescan st sec) fac sev ↔ Spec.routes sec fac sev d = true := by
  rw [routesOps_rescan h sec fac sev d, routes_iff_ops sec fac sev hsev]

/-- **C18, reloads.**  In every reachable live state the routing is that of the current children
    of the `logs` object — and of nothing else. -/
theorem C18_reload {co : Bytes → Bool} {c : ConfSt} (hreach : Reach co c) (halive : c.run.exit = none)
    (fac d : Bytes) (sev : Nat) (hsev : sev < 6) :
    d ∈ dests c.run.st fac sev ↔ Spec.routes (entriesOf c.live) fac sev d = true := by
  have hs := (sound_of_reach hreach).routes halive
  rw [hs.2 fac sev d, routes_iff_ops _ fac sev hsev]

/-- **C18, reloads, inside assumption F25** (every destination named by a loaded section can be
    opened; no message of severity fatal): the process is alive after any such history, so the
    routing statement holds unconditionally. -/
theorem C18_reload_F25 {co : Bytes → Bool} {c : ConfSt} (hreach : ReachOK co c)
    (fac d : Bytes) (sev : Nat) (hsev : sev < 6) :
    c.run.exit = none ∧
    (d ∈ dests c.run.st fac sev ↔ Spec.routes (entriesOf c.live) fac sev d = true) :=
  ⟨(alive_of_reachOK hreach).1,
   C18_reload (reach_of_reachOK hreach) (alive_of_reachOK hreach).1 fac d sev hsev⟩

/-- **C18 over histories, exact, in the specification's own terms.**  `ReachS co c cur` runs the
    model and the specification's notion of "current section" (`Spec.onLoad`: the effective
    entries of the last successfully loaded `logs { … }`, nothing if the last file had no `logs`)
    side by side.  In every such live state a message is written to `d` exactly when `cur` routes
    it there — the new section only. -/
theorem C18_history {co : Bytes → Bool} {c : ConfSt} {cur : List Entry} (h : ReachS co c cur)
    (halive : c.run.exit = none) (fac d : Bytes) (sev : Nat) (hsev : sev < 6) :
    d ∈ dests c.run.st fac sev ↔ Spec.routes cur fac sev d = true := by
  obtain ⟨hreach, _, hroutes⟩ := reachS_routes h
  rw [C18_reload hreach halive fac d sev hsev, hroutes]

/-- **C18 with multiplicity.**  The destinations of a message after a rescan as a list, order and
    repetitions included: the values the section attaches for the facility, then those it
    attaches for `*` (so a file named twice gets two copies). -/
theorem C18_multiset {st : LogSt} (h : WF st) (sec : List Entry) (fac : Bytes) (sev : Nat) :
    dests (rescan st sec) fac sev =
      routed (sectionOps sec) fac sev ++ routed (sectionOps sec) bStar sev :=
  dests_exact h sec fac sev

/-- **C18, lines.**  Every record a message leaves in a destination is the specification's line
    for the registered spelling of the message's facility, its severity and its text (≤ 1023 bytes
    of it), and it goes to a destination of the routing table. -/
theorem C18_lines (st : LogSt) (fac : Bytes) (sev : Nat) (m : Bytes) :
    ∀ p ∈ emit st fac sev m,
      p.1 ∈ dests st fac sev ∧
      ∃ fac', ciEq fac' fac = true ∧ p.2 = Spec.lineFor fac' sev (m.take 1023) := by
  intro p hp
  obtain ⟨h1, h2, h3⟩ := line_complete st fac sev m p hp
  exact ⟨h1, canonT st.types fac, h3, h2⟩

/-! ### the statements are not vacuous -/

/-- `a.>=info` → "x":  an `a`/error message is written to "x", an `a`/debug message is not. -/
def demoSec : List Entry := [⟨[97, 46, 62, 61, 105, 110, 102, 111], [[120]]⟩]

example : WF Log.init := wf_init
example : dests (rescan Log.init demoSec) [97] sevError = [[120]] ∧
    dests (rescan Log.init demoSec) [97] sevDebug = [] ∧
    Spec.routes demoSec [97] sevError [120] = true ∧ Spec.routes demoSec [97] sevDebug [120] = false := by decide
/-- `a.*` → "file:x" -/
def demoFile : List RawEntry := [⟨[97, 46, 42], .str, [[102, 105, 108, 101, 58, 120]]⟩]

theorem demoFile_ok : FileOK (fun _ => true) demoFile := by
  intro e he
  simp only [demoFile, List.mem_singleton] at he
  subst he
  right
  intro v hv
  simp only [List.mem_singleton] at hv
  subst hv
  exact ⟨[120], by decide, by decide, by decide, rfl⟩

example : ReachOK (fun _ => true) (message (load (fun _ => true) ConfSt.init (some demoFile)) [97] sevError [104, 105]) :=
  ReachOK.msg _ _ _ (by decide) (ReachOK.load _ (by intro es h; cases h; exact demoFile_ok) ReachOK.init)
example : ReachS (fun _ => true) (load (fun _ => true) ConfSt.init (some demoFile)) (Spec.toEntries demoFile) :=
  ReachS.load (some demoFile)
    (by intro es h; cases h; intro e he _; simp only [demoFile, List.mem_singleton] at he; subst he; exact ⟨_, rfl⟩)
    (alive_of_reachOK (ReachOK.load _ (by intro es h; cases h; exact demoFile_ok) ReachOK.init)).1
    ReachS.init
example : Reach (fun _ => true) (message ConfSt.init [97] sevError [104, 105]) := Reach.msg _ _ _ Reach.init
example : (message ConfSt.init [97] sevError [104, 105]).run.exit = none := by decide
example : (emit (rescan Log.init demoSec) [97] sevError [104, 105]).map (·.2) = [[40, 97, 58, 101, 114, 114, 111, 114, 41, 32, 104, 105]] := by
  decide

end Iauthd.Properties
