import Iauthd.Set.Dispose
import Iauthd.Set.Comparators
import Iauthd.Set.MapLaws
/-
  Property C19 — "The set container is an ordered map for every history".

  Formal reading.  `runModel cmp {} ops` is the output stream of the model of src/set.c
  (top-down splay tree + thread list + count) driven from the empty set through
  insert / find / lower / remove / clear / iterate forwards / iterate backwards / size;
  `runSpec cmp [] ops` is the output stream of a plain sorted list.  For every operation
  sequence (no bound on length or key universe) and every comparator satisfying the order
  laws the two are equal, and the disposal accounting balances: inserted = live ⊎ disposed
  ⊎ detached, so with distinct elements nothing is disposed twice and nothing live is
  disposed.  The stock comparators satisfy the laws over their whole key domain.
-/
namespace Iauthd.Properties
open Iauthd.Set

theorem C19 {α : Type} (cmp : α → α → Int) (h : CmpLaws cmp) (ops : List (Op α)) :
    runModel cmp ({} : SetSt α) ops = runSpec cmp [] ops
    ∧ (abs (modelFinal cmp {} ops) ++ disposedAll (runModel cmp {} ops) ++ detachedAll cmp [] ops).Perm
        (insertedAll ops)
    ∧ ((insertedAll ops).Nodup →
        (disposedAll (runModel cmp {} ops)).Nodup
        ∧ ∀ x ∈ disposedAll (runModel cmp {} ops), x ∉ abs (modelFinal cmp {} ops)) :=
  ⟨C19_refinement h ops, (C19_dispose_once h ops).1, (C19_dispose_once h ops).2⟩

theorem C19_stock_comparators : CmpLaws cmpInt3 ∧ CmpLaws cmpCharp ∧ CmpLaws cmpPtr :=
  ⟨cmpInt3_laws, cmpCharp_laws, cmpPtr_laws⟩

/-- non-vacuity: a concrete history with a replacement, a miss, a lower bound that is not
    a member, a removal and both iteration orders, over extreme keys -/
example :
    runModel cmpInt3 {} [.ins ⟨2147483647, 1⟩, .ins ⟨-2147483648, 2⟩, .ins ⟨0, 3⟩, .ins ⟨0, 4⟩,
      .find ⟨7, 0⟩, .lower ⟨1, 0⟩, .rem ⟨-2147483648, 0⟩ false, .walk, .back, .size]
    = [.ins none, .ins none, .ins none, .ins (some ⟨0, 3⟩), .found none,
       .lower (some ⟨2147483647, 1⟩), .rem true (some ⟨-2147483648, 2⟩),
       .walk [⟨0, 4⟩, ⟨2147483647, 1⟩], .back [⟨2147483647, 1⟩, ⟨0, 4⟩], .size 2] := by decide

/-- **C19 (map laws, every reachable state).**  After any history `ops` from the empty set:
    the elements are strictly increasing under the comparator and the thread list and count
    agree with the tree; a lookup returns `y` exactly when `y` is the member comparing equal to
    the key, and there is at most one such member; an element just inserted is what a lookup of
    any equal key returns (never the element it displaced); a key just removed is not found. -/
theorem C19_map_laws {α : Type} (cmp : α → α → Int) (h : CmpLaws cmp) (ops : List (Op α)) :
    let s := modelFinal cmp ({} : SetSt α) ops
    Inv cmp s
    ∧ (∀ k y, (stepModel cmp s (.find k)).2 = .found (some y) ↔ (y ∈ abs s ∧ cmp k y = 0))
    ∧ (∀ k y z, y ∈ abs s → z ∈ abs s → cmp k y = 0 → cmp k z = 0 → y = z)
    ∧ (∀ n k, cmp k n = 0 →
        runModel cmp s [.ins n, .find k] = [(stepModel cmp s (.ins n)).2, .found (some n)])
    ∧ (∀ k nd, runModel cmp s [.rem k nd, .find k] = [(stepModel cmp s (.rem k nd)).2, .found none]) :=
  ⟨reach_inv h ops, fun k y => reach_find_iff h ops k y, fun k y z => reach_unique h ops k y z,
   fun n k hk => reach_insert_find h ops n k hk, fun k nd => reach_remove_find h ops k nd⟩

/-- **C19 (lower bound, every reachable state).**  `set_lower` answers with a member not below
    the key that is the least such member; no answer means every member is below the key. -/
theorem C19_lower_bound {α : Type} (cmp : α → α → Int) (h : CmpLaws cmp) (ops : List (Op α)) (k : α) :
    let s := modelFinal cmp ({} : SetSt α) ops
    (∀ y, (stepModel cmp s (.lower k)).2 = .lower (some y) →
        y ∈ abs s ∧ cmp k y ≤ 0 ∧ ∀ z ∈ abs s, cmp k z ≤ 0 → (z = y ∨ cmp y z < 0))
    ∧ ((stepModel cmp s (.lower k)).2 = .lower none → ∀ z ∈ abs s, cmp k z > 0) :=
  reach_lower h ops k

/-- **C19 (iteration, every reachable state).**  Walking forwards yields the members in strictly
    increasing order, walking backwards yields the same sequence reversed, and the size is its
    length. -/
theorem C19_iteration {α : Type} (cmp : α → α → Int) (h : CmpLaws cmp) (ops : List (Op α)) :
    let s := modelFinal cmp ({} : SetSt α) ops
    (stepModel cmp s .walk).2 = .walk (abs s) ∧ Sorted cmp (abs s)
    ∧ (stepModel cmp s .back).2 = .back (abs s).reverse
    ∧ (stepModel cmp s .size).2 = .size (abs s).length := by
  intro s
  have hi := reach_inv h ops
  refine ⟨?_, hi.sorted, ?_, ?_⟩
  · show Out.walk s.thread = _; rw [hi.thread]; rfl
  · show Out.back s.thread.reverse = _; rw [hi.thread]; rfl
  · show Out.size s.count = _; rw [hi.count, hi.thread]; rfl

/-- non-vacuity of the map laws on a concrete reachable state: replacement is visible to the
    next lookup, the removed key is gone -/
example :
    runModel cmpInt3 (modelFinal cmpInt3 {} [.ins ⟨5, 1⟩, .ins ⟨3, 2⟩]) [.ins ⟨5, 9⟩, .find ⟨5, 0⟩]
      = [.ins (some ⟨5, 1⟩), .found (some ⟨5, 9⟩)]
    ∧ runModel cmpInt3 (modelFinal cmpInt3 {} [.ins ⟨5, 1⟩, .ins ⟨3, 2⟩]) [.rem ⟨3, 0⟩ false, .find ⟨3, 0⟩]
      = [.rem true (some ⟨3, 2⟩), .found none] := by decide

end Iauthd.Properties
