import Iauthd.Set.Dispose
import Iauthd.Set.Comparators
/-
  Property C19 — "The set container is an ordered map for every history".

  Formal reading.  `runModel cmp {} ops` is the output stream of the model of src/set.c
  (top-down splay tree + thread list + count) driven from the empty set through
  insert / find / lower / remove / clear / iterate forwards / iterate backwards / size;
  `runSpec cmp [] ops` is the output stream of a plain sorted list.  For every operation
  sequence (no bound on length or key universe) and every comparator satisfying the order
  laws the two are equal, and the disposal accounting balances: inserted = live ⊎ disposed
  ⊎ detached, so with distinct elements nothing is disposed twice and nothing live is
  disposed.  The stock comparators satisfy the laws over their whole key domain.
-/
namespace Iauthd.Properties
open Iauthd.Set

theorem C19 {α : Type} (cmp : α → α → Int) (h : CmpLaws cmp) (ops : List (Op α)) :
    runModel cmp ({} : SetSt α) ops = runSpec cmp [] ops
    ∧ (abs (modelFinal cmp {} ops) ++ disposedAll (runModel cmp {} ops) ++ detachedAll cmp [] ops).Perm
        (insertedAll ops)
    ∧ ((insertedAll ops).Nodup →
        (disposedAll (runModel cmp {} ops)).Nodup
        ∧ ∀ x ∈ disposedAll (runModel cmp {} ops), x ∉ abs (modelFinal cmp {} ops)) :=
  ⟨C19_refinement h ops, (C19_dispose_once h ops).1, (C19_dispose_once h ops).2⟩

theorem C19_stock_comparators : CmpLaws cmpInt3 ∧ CmpLaws cmpCharp ∧ CmpLaws cmpPtr :=
  ⟨cmpInt3_laws, cmpCharp_laws, cmpPtr_laws⟩

/-- non-vacuity: a concrete history with a replacement, a miss, a lower bound that is not
    a member, a removal and both iteration orders, over extreme keys -/
example :
    runModel cmpInt3 {} [.ins ⟨2147483647, 1⟩, .ins ⟨-2147483648, 2⟩, .ins ⟨0, 3⟩, .ins ⟨0, 4⟩,
      .find ⟨7, 0⟩, .lower ⟨1, 0⟩, .rem ⟨-2147483648, 0⟩ false, .walk, .back, .size]
    = [.ins none, .ins none, .ins none, .ins (some ⟨0, 3⟩), .found none,
       .lower (some ⟨2147483647, 1⟩), .rem true (some ⟨-2147483648, 2⟩),
       .walk [⟨0, 4⟩, ⟨2147483647, 1⟩], .back [⟨2147483647, 1⟩, ⟨0, 4⟩], .size 2] := by decide

end Iauthd.Properties
