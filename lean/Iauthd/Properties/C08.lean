import Iauthd.Proto.Chunk
/-
  Property C08 — "Arbitrary input cannot crash or derail the daemon" (model part).

  `C08_no_fault`: for every byte stream, cut into read() chunks in any way, interleaved with
  timer expiries at any points, the model never reaches one of its explicit fault outcomes
  (NULL argument dereferenced, failed assertion, re-entrant accept, address parser leaving
  its arguments).  Crashes, hangs and foreign memory in the *real* process are a runtime
  facet: they are explored under ASan/UBSan by the check, not proved.
-/
namespace Iauthd.Properties
open Iauthd Iauthd.Proto

theorem C08_no_fault (hasXq hasClass : Bool) (hdep : hasClass = true → hasXq = true) (ops : List Op) :
    ∃ res, runOps { hasXq := hasXq, hasClass := hasClass } ops = .ok res :=
  let ⟨s', outs, h, _⟩ := runOps_total_inv ops _ (inv_init hasXq hasClass hdep)
  ⟨(s', outs), h⟩

theorem C08_line_total (s : State) (hi : Inv s) (raw : Bytes) : ∃ res, stepLine s raw = .ok res :=
  stepLine_total s hi raw

/-- the treatment of a byte stream does not depend on how it is cut into read() chunks: any
    two segmentations with the same concatenation give the same final state and the same
    output lines in the same order; in particular every prefix of a stream processes exactly
    the complete lines of that prefix (the rest waits in the buffer) -/
theorem C08_chunking (cs1 cs2 : List Bytes) (s : State) (hi : NoNL s.inbuf) (h : cs1.flatten = cs2.flatten) :
    feedAll s cs1 = feedAll s cs2 := Iauthd.Proto.C08_chunking cs1 cs2 s hi h

theorem C08_split (s : State) (a b' : Bytes) :
    stepChunk s (a ++ b') = seq2 (stepChunk s a) (fun s1 => stepChunk s1 b') := stepChunk_append s a b'

/-- non-vacuity: the only hypothesis (the class module is loaded together with xquery, as its
    constructor's `module_depends` enforces) holds for all three module sets of the daemon;
    concrete histories are exercised by the corpus through the compiled driver -/
example (ops : List Op) := C08_no_fault false false (by decide) ops
example (ops : List Op) := C08_no_fault true false (by decide) ops
example (ops : List Op) := C08_no_fault true true (by decide) ops

end Iauthd.Properties
