import Iauthd.Proto.Stray04
import Iauthd.Proto.Props
import Iauthd.Proto.RenderHex
import Iauthd.Proto.RefInvH
/-
  Property C04 — "Replies affect only the client instance they were asked about" (model part).

  * `C04_stray_tag`: a reply whose routing tag does not validate (malformed, unknown id,
    other serial) leaves the whole state unchanged and emits nothing;
  * `C04_not_awaited`: a reply from a service that does not owe this instance an answer
    leaves the request unchanged and emits nothing;
  * `C04_tag_exact`: a tag validates only for a stored request with exactly that id and serial,
    and the tag reader accepts no number beyond 32 bits (no wrap-around aliasing, F21);
  * `C04_others`: even an accepted reply changes no other client's record;
  * `C04_tag_readback`: the tag the daemon writes for an instance (`iauth_routing`) reads back
    (`iauth_validate_request`'s `strtol`/`strtoul`) as exactly that instance's id and serial, for every
    32-bit id and serial - so no two live instances share a tag.
  * `C04_slots_alive`: for every history (and across every reload, `C04_reload_slots`), a service
    slot that some stored request still waits for is never freed and handed to another service: its
    reference counter is at least the number of requests waiting for it, so the reply handler
    (`findRefSlot`, by slot and name) always looks at the service the query went to.
  The differential judge runs the real daemon with and without stray replies.
-/
namespace Iauthd.Properties
open Iauthd Iauthd.Proto

theorem C04_stray_tag (s : State) (l : Line) (isX : Bool)
    (h : validateRequest s ((arg l 2).getD []) = none) : onReply s l isX = .ok (s, []) :=
  stray_tag_noop s l isX h

theorem C04_not_awaited (st : Static) (c : Ctx) (svc : Bytes) (reply : Option Bytes) (cli : XqCli)
    (hx : c.req.xq = some cli) (h : findRefSlot c.svcs cli svc = none) : xqReply st c svc reply = .ok c :=
  not_awaited_noop st c svc reply cli hx h

theorem C04_tag_exact {s : State} {tag : Bytes} {r : Req} (h : validateRequest s tag = some r) :
    ∃ id serial, parseTag tag = some (id, serial) ∧ r.client = id ∧ r.serial = serial ∧ r ∈ s.reqs
      ∧ serial ≤ 4294967295 ∧ ∃ v : Int, 0 ≤ v ∧ v ≤ 4294967295 ∧ id = toInt32 v := by
  obtain ⟨id, serial, hp, h1, h2, h3⟩ := validateRequest_serial h
  have := parseTag_range tag id serial hp
  exact ⟨id, serial, hp, h1, h2, h3, this.1, this.2⟩

theorem C04_others {s s' : State} {l : Line} {isX : Bool} {out : List Bytes}
    (h : onReply s l isX = .ok (s', out)) (id : Int)
    (hne : ∀ r, validateRequest s ((arg l 2).getD []) = some r → id ≠ r.client) :
    findReq s'.reqs id = findReq s.reqs id :=
  onReply_others h id hne


/-- the tag written for an instance reads back as that instance, and two instances with the same tag
    have the same id and serial -/
theorem C04_tag_readback (r : Req) (h1 : -2147483648 ≤ r.client) (h2 : r.client ≤ 2147483647)
    (hs : r.serial < 4294967296) : parseTag (routing r) = some (r.client, r.serial) :=
  parseTag_routing r h1 h2 hs

theorem C04_tag_injective (r r' : Req) (h1 : -2147483648 ≤ r.client) (h2 : r.client ≤ 2147483647)
    (hs : r.serial < 4294967296) (h1' : -2147483648 ≤ r'.client) (h2' : r'.client ≤ 2147483647)
    (hs' : r'.serial < 4294967296) (h : routing r = routing r') :
    r.client = r'.client ∧ r.serial = r'.serial := by
  have a := parseTag_routing r h1 h2 hs
  have b := parseTag_routing r' h1' h2' hs'
  rw [h, b] at a
  simp only [Option.some.injEq, Prod.mk.injEq] at a
  exact ⟨a.1.symm, a.2.symm⟩


/-- **every history**: whoever waits for a service slot finds the slot occupied and counted -/
theorem C04_slots_alive (hasXq hasClass : Bool) (hdep : hasClass = true → hasXq = true) (ops : List Op)
    (s' : State) (outs : List (List Bytes))
    (h : runOps { hasXq := hasXq, hasClass := hasClass } ops = .ok (s', outs)) :
    ∀ r ∈ s'.reqs, ∀ cli, r.xq = some cli → ∀ i, cli.ref.contains i = true →
      ∃ srv, getSvc s'.svcs i = some srv ∧ 0 < srv.refs := by
  have h0 : Refd ({ hasXq := hasXq, hasClass := hasClass } : State) := by
    intro i; simp [getSvc, cnt]
  have := runOps_refd ops _ (inv_init hasXq hasClass hdep) h0 s' outs h
  intro r hr cli hx i hi
  exact this.slot_alive hr hx hi

/-- a reload (services added, removed, retyped) keeps the invariant -/
theorem C04_reload_slots (s : State) (h : Refd s) (live new : Config) (first : Bool) :
    Refd (applyConfig s live new first).1 :=
  applyConfig_ref s live new first h

/-- a stray reply line is a step that changes nothing and writes nothing: the line is `-1 X …` /
    `-1 x …` and either its routing tag does not validate (malformed, out of range, unknown id, stale
    serial: `C04_tag_exact` says what validating means) or the service it names is not one the
    addressed instance awaits -/
theorem C04_stray_line (s : State) (hi : Inv s) (raw : Bytes) (h : StrayLine s raw) : stepLine s raw = .ok (s, []) :=
  stepLine_stray s hi raw h

/-- **C04, histories**: the history with a stray line inserted and the history without it are
    processed alike - same final state, same output - wherever the line is inserted -/
theorem C04_history_insert (s sa : State) (oa : List Bytes) (a rest : List Bytes) (ln : Bytes)
    (ha : stepLines s a = .ok (sa, oa)) (hia : Inv sa) (hne : ln.isEmpty = false) (hs : StrayLine sa (cstr ln)) :
    stepLines s (a ++ ln :: rest) = stepLines s (a ++ rest) :=
  stepLines_insert_stray s sa oa a rest ln ha hia hne hs

/-- the reader of the output (the Spec's `tagOf`) and the daemon (`parseTag`) read every routing
    tag alike, well-formed or not -/
theorem C04_tag_readers_agree (tag : Bytes) : Hist.tagOf tag = parseTag tag := by
  unfold Hist.tagOf parseTag
  simp only [Bool.or_comm]

end Iauthd.Properties
