import Iauthd.Module.Spec
/-
  C20 — module load and unload respect declared dependencies.   (work in progress)
-/
namespace Iauthd.Properties.C20
open Iauthd.Module

/-- `a→b,c; b→d; c→d` with a=0 … d=3 -/
def diamond : Nat → List Nat
  | 0 => [1, 2]
  | 1 => [3]
  | 2 => [3]
  | _ => []

/-- `a→b,c; b→c` -/
def triangle : Nat → List Nat
  | 0 => [1, 2]
  | 1 => [2]
  | _ => []

def natLt (a b : Nat) : Bool := decide (a < b)

theorem pinned_diamond_aborts :
    (runPinned natLt diamond (fun _ => true) 5 [0]).status = 1 ∧
    (runPinned natLt diamond (fun _ => true) 5 [0]).why = .loop 0 2 ∧
    Event.postInit 0 ∉ (runPinned natLt diamond (fun _ => true) 5 [0]).events := by decide

theorem pinned_triangle_aborts :
    (runPinned natLt triangle (fun _ => true) 4 [0]).status = 1 ∧
    Event.postInit 0 ∉ (runPinned natLt triangle (fun _ => true) 4 [0]).events := by decide

example : (run natLt diamond (fun _ => true) 5 [0]).status = 0 := by decide

end Iauthd.Properties.C20
