import Iauthd.Module.Proofs
import Iauthd.Module.ProofsHook
/-
  C20 — module load and unload respect declared dependencies.

  "For every acyclic dependency graph among the modules named in the configuration or
   pulled in by others, each module is constructed once, its dependencies are fully
   constructed before it finishes constructing, its post-init runs exactly once and
   after those of everything it depends on (also when a module is reachable along two
   paths), and at shutdown its destructor runs before the destructors of the modules
   it depends on.  A genuine dependency cycle or an unloadable module aborts start-up
   with an error instead of running partially initialised."

  Setting of every theorem (no bound on the size of the graph):
    `G : α → List α`   what each module's constructor declares (order and duplicates kept),
    `ok : α → Bool`    which names `dlopen` can load,
    `L`                the configuration list,
    `lt`               the order of the `modules` set — *any* function: nothing below
                       depends on the iteration order,
    `U`                a finite universe of names containing `L` and closed under `G`
                       (`Closed G U L`), and `fuel > U.length` for the recursion.
  `run lt G ok fuel L` is the model of the REPAIRED daemon (F20 fixed: `dfsFixed`);
  `runPinned` is the pinned `module_dfs`, for which the property fails
  (`pinned_diamond_aborts`, `pinned_triangle_aborts`, `pinned_fails_judge`).

  `Loaded G L m`   : `m` is named in the configuration or pulled in by others;
  `Reach1 G m m`   : `m` lies on a dependency cycle;
  `NoCycle G L`    : no loaded module lies on a cycle;
  `Before ev a b`  : in the chronological log, `a` occurs before an occurrence of `b`.
-/
namespace Iauthd.Properties.C20
open Iauthd.Module

section
variable {α : Type} [DecidableEq α] (lt : α → α → Bool) (G : α → List α) (ok : α → Bool)
variable {U L : List α} {fuel : Nat}

/-- Each loaded module is constructed exactly once (one `ctor-begin`, one `ctor-end`, in
    this order); a module that is not loaded is never constructed. -/
theorem ctor_once (hcl : Closed G U L) (hfuel : U.length < fuel) (hnc : NoCycle G L)
    (hok : ∀ m, Loaded G L m → ok m = true) (m : α) :
    let ev := (run lt G ok fuel L).events
    (Loaded G L m → ev.count (.ctorBegin m) = 1 ∧ ev.count (.ctorEnd m) = 1 ∧
        Before ev (.ctorBegin m) (.ctorEnd m)) ∧
    (¬ Loaded G L m → ev.count (.ctorBegin m) = 0 ∧ ev.count (.ctorEnd m) = 0) := by
  have h := run_acyclic lt hcl hfuel hnc hok
  refine ⟨fun hm => ?_, fun hm => ?_⟩
  · rw [h.count, h.count, if_pos ((h.begun_iff m).mpr hm), if_pos (h.full m hm).1]
    exact ⟨rfl, rfl, h.before_begin_end hm⟩
  · obtain ⟨h1, h2, _, _⟩ := h.not_loaded hm
    rw [h.count, h.count, if_neg h1, if_neg h2]
    exact ⟨rfl, rfl⟩

/-- A module's dependencies are fully constructed before it finishes constructing. -/
theorem deps_before_ctor_end (hcl : Closed G U L) (hfuel : U.length < fuel) (hnc : NoCycle G L)
    (hok : ∀ m, Loaded G L m → ok m = true) (m d : α) (hm : Loaded G L m) (hd : d ∈ G m) :
    Before (run lt G ok fuel L).events (.ctorEnd d) (.ctorEnd m) :=
  (run_acyclic lt hcl hfuel hnc hok).before_ctorEnd hm hd

/-- Start-up succeeds; post-init runs exactly once per loaded module, after the module is
    constructed and after the post-init of every dependency — also when a module is
    reachable along two paths (this is what fails on the pinned tree, F20). -/
theorem postinit_once_after_deps (hcl : Closed G U L) (hfuel : U.length < fuel) (hnc : NoCycle G L)
    (hok : ∀ m, Loaded G L m → ok m = true) :
    let o := run lt G ok fuel L
    o.status = 0 ∧ ∀ m,
      (Loaded G L m → o.events.count (.postInit m) = 1 ∧ Before o.events (.ctorEnd m) (.postInit m) ∧
          ∀ d, d ∈ G m → Before o.events (.postInit d) (.postInit m)) ∧
      (¬ Loaded G L m → o.events.count (.postInit m) = 0) := by
  have h := run_acyclic lt hcl hfuel hnc hok
  refine ⟨h.status, fun m => ⟨fun hm => ?_, fun hm => ?_⟩⟩
  · rw [h.count, if_pos (h.full m hm).2.1]
    exact ⟨rfl, h.before_end_postInit hm, fun d hd => h.before_postInit hm hd⟩
  · rw [h.count, if_neg (h.not_loaded hm).2.2.1]

/-- At shutdown every loaded module is destroyed exactly once, before the modules it
    depends on. -/
theorem dtor_before_deps (hcl : Closed G U L) (hfuel : U.length < fuel) (hnc : NoCycle G L)
    (hok : ∀ m, Loaded G L m → ok m = true) (m : α) :
    let ev := (run lt G ok fuel L).events
    (Loaded G L m → ev.count (.dtor m) = 1 ∧ ∀ d, d ∈ G m → Before ev (.dtor m) (.dtor d)) ∧
    (¬ Loaded G L m → ev.count (.dtor m) = 0) := by
  have h := run_acyclic lt hcl hfuel hnc hok
  refine ⟨fun hm => ?_, fun hm => ?_⟩
  · rw [h.count, if_pos (h.full m hm).2.2]
    exact ⟨rfl, fun d hd => h.before_dtor hm hd⟩
  · rw [h.count, if_neg (h.not_loaded hm).2.2.2]

/-- A genuine dependency cycle among the loaded modules aborts start-up (non-zero exit
    status, and not because the model ran out of fuel); no module that lies on a cycle is
    ever post-initialised — the latter for every graph. -/
theorem cycle_aborts (hcl : Closed G U L) (hfuel : U.length < fuel)
    (hcyc : ∃ c, Loaded G L c ∧ Reach1 G c c) :
    let o := run lt G ok fuel L
    o.status ≠ 0 ∧ o.why ≠ Why.fuel ∧ ∀ c, Reach1 G c c → Event.postInit c ∉ o.events := by
  have h := run_any (ok := ok) lt hcl hfuel
  refine ⟨?_, h.nofuel, h.nocycpi⟩
  intro h0
  obtain ⟨c, hc, hcc⟩ := hcyc
  exact (h.zero_imp h0).1 c hc hcc

/-- An unloadable module among those pulled in aborts start-up with `LOG_FATAL` (exit
    status 1, "Unable to load module x") before any post-init or destructor runs. -/
theorem unloadable_aborts (hcl : Closed G U L) (hfuel : U.length < fuel)
    (hbad : ∃ m, Loaded G L m ∧ ok m = false) :
    let o := run lt G ok fuel L
    o.status = 1 ∧ (∃ x, o.why = Why.unloadable x ∧ ok x = false) ∧
      ∀ m, Event.postInit m ∉ o.events ∧ Event.dtor m ∉ o.events :=
  (run_any (ok := ok) lt hcl hfuel).unl hbad

/-- Conversely, a start-up that succeeds had no cycle and no unloadable module to deal with. -/
theorem success_only_if_clean (hcl : Closed G U L) (hfuel : U.length < fuel)
    (h0 : (run lt G ok fuel L).status = 0) : NoCycle G L ∧ ∀ m, Loaded G L m → ok m = true :=
  (run_any (ok := ok) lt hcl hfuel).zero_imp h0

/-- The fuel of the model is enough for every graph: load recursion, post-init walk and both
    `module_close_all` calls of the exit path end by themselves. -/
theorem fuel_suffices (hcl : Closed G U L) (hfuel : U.length < fuel) :
    (run lt G ok fuel L).why ≠ Why.fuel :=
  (run_any (ok := ok) lt hcl hfuel).nofuel

/-- The acyclic case in the checker's own words. -/
theorem C20_acyclic (hcl : Closed G U L) (hfuel : U.length < fuel) (hnc : NoCycle G L)
    (hok : ∀ m, Loaded G L m → ok m = true) :
    let o := run lt G ok fuel L
    o.status = 0 ∧ wellOrdered G o.events = true ∧ completeRun L o.events = true ∧
      constructedOk ok o.events = true := by
  have h := run_acyclic lt hcl hfuel hnc hok
  exact ⟨h.status, h.checker hok⟩

/-- Headline: on every graph the repaired daemon passes the judge — the very predicate the
    check evaluates on the C code's observed exit status and event log. -/
theorem C20_judge (hcl : Closed G U L) (hfuel : U.length < fuel) :
    judge G ok U L (run lt G ok fuel L).status (run lt G ok fuel L).events = true :=
  run_judge lt hcl hfuel

/-- The post-init hook is optional (README).  A run in which only the modules with `hk m` have
    one writes the same log minus the post-init events of the others (`module_dfs` walks them
    like any module and skips the call).  On every graph and for every choice of hook-less
    modules that log passes the hook-aware judge: each hooked module is post-initialised exactly
    once, after every hooked module it depends on *transitively* — also through hook-less ones —
    and cycles / unloadable modules abort exactly as before. -/
theorem C20_judge_hookless (hk : α → Bool) (hcl : Closed G U L) (hfuel : U.length < fuel) :
    judgeH G ok hk U L (run lt G ok fuel L).status (hideHookless hk (run lt G ok fuel L).events) = true :=
  judgeH_of_judge G ok hk U L _ _ (run_judge lt hcl hfuel)

/-- The judge's executable reading of "must abort" is the mathematical one. -/
theorem judge_demand_exact (hcl : Closed G U L) :
    mustAbort G ok U L = true ↔ ∃ m, Loaded G L m ∧ (ok m = false ∨ Reach1 G m m) :=
  mustAbort_iff hcl

end

/-! ### the hypotheses are satisfiable; the pinned code fails -/

/-- `a→b,c; b→d; c→d` with a=0 … d=3 -/
def diamond : Nat → List Nat
  | 0 => [1, 2]
  | 1 => [3]
  | 2 => [3]
  | _ => []

/-- `a→b,c; b→c` -/
def triangle : Nat → List Nat
  | 0 => [1, 2]
  | 1 => [2]
  | _ => []

/-- `a→b; b→a` -/
def twoCycle : Nat → List Nat
  | 0 => [1]
  | 1 => [0]
  | _ => []

def natLt (a b : Nat) : Bool := decide (a < b)
def allOk : Nat → Bool := fun _ => true

theorem diamond_closed : Closed diamond [0, 1, 2, 3] [0] := by
  refine ⟨by simp, ?_⟩
  intro m hm d hd
  simp at hm
  rcases hm with rfl | rfl | rfl | rfl <;> simp [diamond] at hd <;> (try rcases hd with rfl | rfl) <;> simp [*]

theorem diamond_noCycle : NoCycle diamond [0] := by
  apply noCycle_of_rank (fun n => 10 - n)
  intro a d hd
  match a, hd with
  | 0, hd => simp [diamond] at hd; omega
  | 1, hd => simp [diamond] at hd; omega
  | 2, hd => simp [diamond] at hd; omega
  | n + 3, hd => simp [diamond] at hd

/-- non-vacuity of the acyclic theorems: the diamond satisfies every hypothesis … -/
example : (run natLt diamond allOk 5 [0]).status = 0 ∧
    ∀ m, Loaded diamond [0] m → (run natLt diamond allOk 5 [0]).events.count (.postInit m) = 1 :=
  have h := postinit_once_after_deps natLt diamond allOk (fuel := 5) diamond_closed (by decide)
    diamond_noCycle (fun _ _ => rfl)
  ⟨h.1, fun m hm => ((h.2 m).1 hm).1⟩

/-- … and the repaired model really runs it (`d` is reachable along two paths). -/
example : (run natLt diamond allOk 5 [0]).events =
    [.ctorBegin 0, .ctorBegin 1, .ctorBegin 3, .ctorEnd 3, .ctorEnd 1, .ctorBegin 2, .ctorEnd 2, .ctorEnd 0,
     .postInit 3, .postInit 1, .postInit 2, .postInit 0, .dtor 0, .dtor 1, .dtor 2, .dtor 3] := by decide

/-- non-vacuity of `cycle_aborts` -/
example : ∃ c, Loaded twoCycle [0] c ∧ Reach1 twoCycle c c :=
  ⟨0, ⟨0, by simp, Reach.refl 0⟩, ⟨1, Reach.tail (Reach.refl 0) (by simp [twoCycle]), by simp [twoCycle]⟩⟩

example : (run natLt twoCycle allOk 3 [0]).status = 1 ∧ (run natLt twoCycle allOk 3 [0]).why = .loop 0 1 := by
  decide

/-- non-vacuity of `unloadable_aborts` -/
example : ∃ m, Loaded diamond [0] m ∧ (fun n => decide (n ≠ 3)) m = false :=
  ⟨3, ⟨0, by simp, Reach.tail (Reach.tail (Reach.refl 0) (by simp [diamond] : 1 ∈ diamond 0)) (by simp [diamond])⟩,
   by decide⟩

/-- F20 on the pinned tree: the diamond is reported as a dependency loop `a -> c`. -/
theorem pinned_diamond_aborts :
    (runPinned natLt diamond allOk 5 [0]).status = 1 ∧
    (runPinned natLt diamond allOk 5 [0]).why = .loop 0 2 ∧
    Event.postInit 0 ∉ (runPinned natLt diamond allOk 5 [0]).events := by decide

/-- … and the triangle makes `module_load_list` return -1: `main` exits with status 1. -/
theorem pinned_triangle_aborts :
    (runPinned natLt triangle allOk 4 [0]).status = 1 ∧
    Event.postInit 0 ∉ (runPinned natLt triangle allOk 4 [0]).events := by decide

/-- The judge rejects the pinned behaviour on both graphs (and accepts the repaired one by
    `C20_judge`). -/
theorem pinned_fails_judge :
    judge diamond allOk [0, 1, 2, 3] [0] (runPinned natLt diamond allOk 5 [0]).status
      (runPinned natLt diamond allOk 5 [0]).events = false ∧
    judge triangle allOk [0, 1, 2] [0] (runPinned natLt triangle allOk 4 [0]).status
      (runPinned natLt triangle allOk 4 [0]).events = false := by decide

/-- `a→b; b→c`, `b` without a post-init hook -/
def chain3 : Nat → List Nat
  | 0 => [1]
  | 1 => [2]
  | _ => []

def hookless1 : Nat → Bool := fun n => decide (n ≠ 1)

/-- non-vacuity of `C20_judge_hookless`: the repaired model on the chain, `b` hook-less … -/
example : hideHookless hookless1 (run natLt chain3 allOk 4 [0]).events =
    [.ctorBegin 0, .ctorBegin 1, .ctorBegin 2, .ctorEnd 2, .ctorEnd 1, .ctorEnd 0,
     .postInit 2, .postInit 0, .dtor 0, .dtor 1, .dtor 2] := by decide

/-- … and the hook-aware judge rejects a walk that is pruned at the hook-less module (post-init
    of `a` before that of `c`, on which it depends through `b`), which the direct-dependency
    reading would not notice. -/
theorem hookless_pruned_walk_fails_judge :
    judgeH chain3 allOk hookless1 [0, 1, 2] [0] 0
      [.ctorBegin 0, .ctorBegin 1, .ctorBegin 2, .ctorEnd 2, .ctorEnd 1, .ctorEnd 0,
       .postInit 0, .postInit 2, .dtor 0, .dtor 1, .dtor 2] = false := by decide

end Iauthd.Properties.C20
