import Iauthd.Proto.Table
import Iauthd.Addr.ProofsRef
import Iauthd.Addr.ProofsText
import Iauthd.Log.Proofs
import Iauthd.Proto.RenderConf
/-
  Property C09 — "The server channel carries only well-formed, correctly addressed messages"
  (model part).  The grammar is the Spec `Iauthd.Proto.Hist.parseOut` / `wellFormed`; the judge
  runs it on every line the real daemon writes, and `C09_wellformed` below proves it of every
  line the model can write, for every history.
-/
set_option linter.unusedVariables false
namespace Iauthd.Properties
open Iauthd Iauthd.Proto

/-- every client-directed line starts `<letter> <id> <address text> <port>` of the request -/
theorem C09_client_line (r : Req) (first rest : Bytes) :
    sendReq r first rest =
      truncBuf 1024 (first ++ sp ++ decInt r.client ++ sp ++ r.textAddr ++ sp ++ decNat r.port ++ rest) := rfl

/-- the address text of an announced client is the printer's text of what the parser read,
    the port is the announced number modulo 2^16 -/
theorem C09_announced (s s' : State) (id : Int) (a p : Bytes) (out : List Bytes)
    (h : newClient s id a p = .ok (s', out)) :
    ∃ res, ptonC a false = .ok res ∧ ∃ r, findReq s'.reqs id = some r ∧ r.textAddr = ntopC res.addr
      ∧ r.port = portOf p ∧ r.port < 65536 := by
  unfold newClient at h
  cases hp : ptonC a false with
  | error e => simp [hp, bind, Except.bind] at h
  | ok res =>
    simp only [hp, bind, Except.bind, pure, Except.pure, Except.ok.injEq, Prod.mk.injEq] at h
    obtain ⟨rfl, _⟩ := h
    refine ⟨res, rfl, ?_⟩
    dsimp only
    have key : ∀ (r : Req) (reqs : List Req), findReq (insertReq r reqs) r.client = some r := by
      intro r reqs
      unfold findReq
      induction reqs with
      | nil => simp [insertReq]
      | cons q qs ih =>
        unfold insertReq
        split
        · simp
        · split
          · simp
          · rename_i h1 h2
            have : (q.client == r.client) = false := by
              simp only [beq_eq_false_iff_ne, ne_eq]
              intro e; exact h2 (by simp [e])
            simp only [List.find?_cons, this]; exact ih
    have hport : portOf p < 65536 := by
      unfold portOf
      have := Int.emod_lt_of_pos (strtol 10 p).1 (show (0:Int) < 65536 by decide)
      have h0 := Int.emod_nonneg (strtol 10 p).1 (show (65536:Int) ≠ 0 by decide)
      omega
    split
    · exact ⟨_, key _ _, rfl, rfl, hport⟩
    · exact ⟨_, key _ _, rfl, rfl, hport⟩

/-- that text denotes the canonical form of the address, never begins with ':' (which the
    line protocol would read as a trailing parameter) and fits the buffer (C12's theorems) -/
theorem C09_address_text (a : Addr.Addr) :
    Addr.refParse (ntopC a) = some (Addr.canon a) ∧ (ntopC a).head? ≠ some 58 :=
  ⟨Addr.ntop_ref a, Addr.ntop_no_colon a 40⟩

/-- outside debug mode (verbosity 0, as `main` sets it before the event loop) no log message
    is echoed to the console, which is the server channel (C18's model) -/
theorem C09_console_silent (st : Log.LogSt) (h : st.verbosity = 0) (fac : Bytes) (sev : Nat) (m : Bytes) :
    Log.consoleEcho st fac sev m = [] ∧ ∀ ev ∈ Log.logEvs st fac sev m, ∀ t, ev ≠ Log.Ev.console t :=
  Log.console_silent st h fac sev m

/-! ### every line is a single syntactically valid IAuth message

  `Hist.wellFormed l`: `l` contains no line feed or NUL, splits (blanks separate, ':' starts the
  trailing parameter: the way the server reads it) into a message letter and parameters; a
  client-directed message carries a decimal id, an address word, a decimal port and the number of
  parameters its letter takes; a query carries service, a routing tag that reads back as an
  (id, serial) pair, and its payload; `S` carries module and text.

  Setting: `StateOK s` — every stored request's fields, the service names and the rule classes
  can stand in a line (no blank / line feed / NUL where a middle parameter is built from them),
  and the length limits leave room (`ACCOUNTLEN + CLASSLEN ≤ 900`, `USERLEN ≤ 900`; the header
  values 64 + 63 and 10 satisfy this: `limits_ok`).  `StateOK` holds at start-up for every
  admissible configuration (`C09_start`) and is kept by every operation (`stepOp_wellFormed`)
  and every reload with an admissible file (`applyConfig_ok`).  Configured names containing
  blanks or line feeds are outside the theorem (DESIGN F24: such a file is the operator's
  error; the generators stay inside). -/

/-- the shipped limits leave room in the 1024-byte message buffer -/
theorem limits_ok : LimOK ({} : Limits) := by unfold LimOK; decide

/-- the state right after the modules are loaded, before any configuration -/
def bootState (hasXq hasClass : Bool) (lim : Limits) : State := { hasXq := hasXq, hasClass := hasClass, lim := lim }

theorem bootState_ok (hasXq hasClass : Bool) (lim : Limits) (hl : LimOK lim) : StateOK (bootState hasXq hasClass lim) :=
  ⟨(fun r hr => absurd hr List.not_mem_nil), (fun srv hs => absurd hs List.not_mem_nil), (fun r hr => absurd hr List.not_mem_nil), hl⟩

/-- **C09, start-up**: with an admissible first configuration the invariant holds and the
    banner, the configuration report and the options line are well formed. -/
theorem C09_start (hasXq hasClass : Bool) (lim : Limits) (hl : LimOK lim) (cfg : Config) (hc : ConfigOK cfg)
    (version : Bytes) (hv : Clean version) :
    let s := (applyConfig (bootState hasXq hasClass lim) {} cfg true).1
    StateOK s ∧ ∀ l ∈ startup s version, Hist.wellFormed l = true := by
  have h0 := applyConfig_ok _ (bootState_ok hasXq hasClass lim hl) {} cfg
    ⟨(fun n hn => absurd hn List.not_mem_nil), (fun n hn => absurd hn List.not_mem_nil)⟩ hc true
  exact ⟨h0.1, startup_wellFormed _ h0.1 version hv⟩

/-- **C09, every history**: from any state satisfying the invariant, whatever bytes arrive in
    whatever chunks and whichever request timers fire in between, every line the daemon writes
    is a single well-formed IAuth message (and the invariant still holds afterwards). -/
theorem C09_wellformed (s : State) (h : StateOK s) (ops : List Op) (s' : State) (outs : List (List Bytes))
    (hr : runOps s ops = .ok (s', outs)) :
    StateOK s' ∧ ∀ out ∈ outs, ∀ l ∈ out, Hist.wellFormed l = true :=
  runOps_wellFormed ops s h s' outs hr

/-- **C09, reload**: an admissible new file keeps the invariant (and a reload writes nothing:
    `applyConfig` has no output). -/
theorem C09_reload (s : State) (h : StateOK s) (live new : Config) (hl : ConfigOK live) (hn : ConfigOK new) :
    StateOK (applyConfig s live new false).1 ∧ ConfigOK (applyConfig s live new false).2 :=
  applyConfig_ok s h live new hl hn false

/-- the daemon reads its own routing tags back (`iauth_routing` / `iauth_validate_request`),
    and so does the reader of the output -/
theorem C09_tag_roundtrip (r : Req) (h1 : -2147483648 ≤ r.client) (h2 : r.client ≤ 2147483647)
    (hs : r.serial < 4294967296) :
    parseTag (routing r) = some (r.client, r.serial) ∧ Hist.tagOf (routing r) = some (r.client, r.serial) :=
  ⟨parseTag_routing r h1 h2 hs, tagOf_routing r h1 h2 hs⟩

/-! non-vacuity: a configuration with a service and a rule is admissible, and concrete lines of
    every kind pass / fail the grammar as they should -/

def sampleCfg : Config :=
  { timeout := 30,
    xq := [{ name := b "login.example.org", value := b "login" }],
    cls := [{ name := b "staff", isString := false, kids := [(b "class", b "ops"), (b "hostname", b "*.example.org")] }] }

theorem sampleCfg_ok : ConfigOK sampleCfg := by
  have w1 : Word (b "login.example.org") := ⟨(by decide), (by intro c hc; revert c; decide), (by decide)⟩
  have w2 : Word (b "staff") := ⟨(by decide), (by intro c hc; revert c; decide), (by decide)⟩
  refine ⟨?_, ?_⟩
  · intro n hn
    simp only [sampleCfg, List.mem_singleton] at hn
    subst hn
    exact ⟨w1, clean_of_cleanB (by decide), (by decide), (fun kv hkv => absurd hkv List.not_mem_nil)⟩
  · intro n hn
    simp only [sampleCfg, List.mem_singleton] at hn
    subst hn
    refine ⟨w2, clean_of_cleanB (by decide), (by decide), ?_⟩
    intro kv hkv
    simp only [List.mem_cons, List.not_mem_nil, or_false] at hkv
    rcases hkv with rfl | rfl
    · exact ⟨(by intro c hc; revert c; decide), clean_of_cleanB (by decide)⟩
    · exact ⟨(by intro c hc; revert c; decide), clean_of_cleanB (by decide)⟩

example : Hist.wellFormed (b "R 5 10.0.0.1 4000 alice:17 ops") = true := by decide
example : Hist.wellFormed (b "k 5 10.0.0.1 4000 :go away") = true := by decide
example : Hist.wellFormed (b "X login.example.org 5_1 :LOGIN alice pw") = true := by decide
example : Hist.wellFormed (b "S iauth :1-0 reqs alloc, 1 in use; 0 data frees") = true := by decide
example : Hist.wellFormed (b "U 7 0:1:2:3:4:5:6:7 99 ") = false := by decide      -- F29: no user name
example : Hist.wellFormed (b "D 5 10.0.0.1 4000 a b") = false := by decide          -- two classes
example : Hist.wellFormed (b "R 5 10.0.0.1 x alice") = false := by decide           -- port not a number
example : Hist.wellFormed (b "log: something happened") = false := by decide        -- not a message
example : Hist.wellFormed (b "X login.example.org zz :LOGIN a b") = false := by decide -- tag does not read back

end Iauthd.Properties
