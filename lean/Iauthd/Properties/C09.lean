import Iauthd.Proto.Table
import Iauthd.Addr.ProofsRef
import Iauthd.Addr.ProofsText
import Iauthd.Log.Proofs
/-
  Property C09 — "The server channel carries only well-formed, correctly addressed messages"
  (model part).  The grammar check itself is the Spec `Iauthd.Proto.Hist.parseOut` run by the
  judge on every line the real daemon writes.
-/
namespace Iauthd.Properties
open Iauthd Iauthd.Proto

/-- every client-directed line starts `<letter> <id> <address text> <port>` of the request -/
theorem C09_client_line (r : Req) (first rest : Bytes) :
    sendReq r first rest =
      truncBuf 1024 (first ++ sp ++ decInt r.client ++ sp ++ r.textAddr ++ sp ++ decNat r.port ++ rest) := rfl

/-- the address text of an announced client is the printer's text of what the parser read,
    the port is the announced number modulo 2^16 -/
theorem C09_announced (s s' : State) (id : Int) (a p : Bytes) (out : List Bytes)
    (h : newClient s id a p = .ok (s', out)) :
    ∃ res, ptonC a false = .ok res ∧ ∃ r, findReq s'.reqs id = some r ∧ r.textAddr = ntopC res.addr
      ∧ r.port = portOf p ∧ r.port < 65536 := by
  unfold newClient at h
  cases hp : ptonC a false with
  | error e => simp [hp, bind, Except.bind] at h
  | ok res =>
    simp only [hp, bind, Except.bind, pure, Except.pure, Except.ok.injEq, Prod.mk.injEq] at h
    obtain ⟨rfl, _⟩ := h
    refine ⟨res, rfl, ?_⟩
    dsimp only
    have key : ∀ (r : Req) (reqs : List Req), findReq (insertReq r reqs) r.client = some r := by
      intro r reqs
      unfold findReq
      induction reqs with
      | nil => simp [insertReq]
      | cons q qs ih =>
        unfold insertReq
        split
        · simp
        · split
          · simp
          · rename_i h1 h2
            have : (q.client == r.client) = false := by
              simp only [beq_eq_false_iff_ne, ne_eq]
              intro e; exact h2 (by simp [e])
            simp only [List.find?_cons, this]; exact ih
    have hport : portOf p < 65536 := by
      unfold portOf
      have := Int.emod_lt_of_pos (strtol 10 p).1 (show (0:Int) < 65536 by decide)
      have h0 := Int.emod_nonneg (strtol 10 p).1 (show (65536:Int) ≠ 0 by decide)
      omega
    split
    · exact ⟨_, key _ _, rfl, rfl, hport⟩
    · exact ⟨_, key _ _, rfl, rfl, hport⟩

/-- that text denotes the canonical form of the address, never begins with ':' (which the
    line protocol would read as a trailing parameter) and fits the buffer (C12's theorems) -/
theorem C09_address_text (a : Addr.Addr) :
    Addr.refParse (ntopC a) = some (Addr.canon a) ∧ (ntopC a).head? ≠ some 58 :=
  ⟨Addr.ntop_ref a, Addr.ntop_no_colon a 40⟩

/-- outside debug mode (verbosity 0, as `main` sets it before the event loop) no log message
    is echoed to the console, which is the server channel (C18's model) -/
theorem C09_console_silent (st : Log.LogSt) (h : st.verbosity = 0) (fac : Bytes) (sev : Nat) (m : Bytes) :
    Log.consoleEcho st fac sev m = [] ∧ ∀ ev ∈ Log.logEvs st fac sev m, ∀ t, ev ≠ Log.Ev.console t :=
  Log.console_silent st h fac sev m

end Iauthd.Properties
