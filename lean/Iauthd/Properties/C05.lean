import Iauthd.Proto.Holds
/-
  Property C05 — "Verdict content is faithful to what the services said" (model part).
-/
namespace Iauthd.Properties
open Iauthd Iauthd.Proto

/-- `NO <text>` from an awaited service: rejected with exactly that text, in that step -/
theorem C05_refusal (st : Static) (c : Ctx) (svc text : Bytes) (cli : XqCli) (i : Nat) (srv : Svc)
    (hx : c.req.xq = some cli) (hf : findRefSlot c.svcs cli svc = some (i, srv))
    (hr : c.req.flags.responded = false) :
    ∃ c', xqReply st c svc (some (b "NO " ++ text)) = .ok c' ∧ c'.gone = true
      ∧ c'.out = c.out ++ [sendReq c.req (b "k") (b " :" ++ text)] :=
  reply_no_kills st c svc text cli i srv hx hf hr

/-- a vouched stamp is stored cut at the first blank / 64 bytes, and `M :+x` goes out exactly
    when the client asked for host hiding (+x) or account-only visibility (+!) -/
theorem C05_vouch (c : Ctx) (cli : XqCli) (stamp : Bytes) :
    (xqVouch c cli stamp).req.account = setAccount c.lim stamp
    ∧ (xqVouch c cli stamp).out =
        c.out ++ (if cli.modeX || cli.modeBang then
          [sendReq (xqVouch c cli stamp).req (b "M") (b " :+x")] else []) := by
  unfold xqVouch
  dsimp only
  split <;> split <;> simp [updReq, Ctx.emit]

theorem C05_stamp_shape (lim : Limits) (stamp : Bytes) :
    (setAccount lim stamp).length ≤ lim.account ∧ ¬ (32 : UInt8) ∈ setAccount lim stamp := by
  unfold setAccount
  refine ⟨by simp [List.length_take]; omega, fun h => ?_⟩
  have h1 := List.mem_of_mem_take h
  have key : ∀ l : Bytes, (32 : UInt8) ∈ l.takeWhile (fun x => x != 32) → False := by
    intro l
    induction l with
    | nil => simp
    | cons x xs ih =>
      intro hm
      by_cases hx : (x != 32) = true
      · simp only [List.takeWhile_cons, hx, if_true, List.mem_cons] at hm
        rcases hm with e | hm
        · simp [← e] at hx
        · exact ih hm
      · simp [List.takeWhile_cons, hx] at hm
  exact key stamp h1

/-- a blank account is no account: `OK`, `OK ` and `OK  x` are plain OKs -/
theorem C05_blank_is_plain : okStamp (b "OK") = some none ∧ okStamp (b "OK ") = some none
    ∧ okStamp (b "OK  x") = some none ∧ okStamp (b "OKAY") = none ∧ okStamp (b "OK a") = some (some (b "a")) := by
  decide

/-- stamps offered by a drone-check service are not applied (the reply is counted as a plain
    OK): in `xqReply` the `xqVouch` call is guarded by the service type -/
theorem C05_dronecheck_no_stamp (st : Static) (c : Ctx) (svc : Bytes) (cli : XqCli) (i : Nat) (srv : Svc) (rep stamp : Bytes)
    (hx : c.req.xq = some cli) (hf : findRefSlot c.svcs cli svc = some (i, srv))
    (hok : okStamp rep = some (some stamp)) (hty : srv.ty = .dronecheck) :
    xqReply st c svc (some rep) =
      xqFinish st i c { cli with ok := maskAdd cli.ok i } { srv with goodNoAcct := srv.goodNoAcct + 1 } := by
  unfold xqReply
  simp only [hx, hf, hok, hty]
  rfl

end Iauthd.Properties
