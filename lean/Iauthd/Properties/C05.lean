import Iauthd.Proto.Holds
import Iauthd.Proto.Hist
/-
  Property C05 — "Verdict content is faithful to what the services said" (model part).
-/
namespace Iauthd.Properties
open Iauthd Iauthd.Proto

/-- `NO <text>` from an awaited service: rejected with exactly that text, in that step -/
theorem C05_refusal (st : Static) (c : Ctx) (svc text : Bytes) (cli : XqCli) (i : Nat) (srv : Svc)
    (hx : c.req.xq = some cli) (hf : findRefSlot c.svcs cli svc = some (i, srv))
    (hr : c.req.flags.responded = false) :
    ∃ c', xqReply st c svc (some (b "NO " ++ text)) = .ok c' ∧ c'.gone = true
      ∧ c'.out = c.out ++ [sendReq c.req (b "k") (b " :" ++ text)] :=
  reply_no_kills st c svc text cli i srv hx hf hr

/-- a vouched stamp is stored cut at the first blank / 64 bytes, and `M :+x` goes out exactly
    when the client asked for host hiding (+x) or account-only visibility (+!) -/
theorem C05_vouch (c : Ctx) (cli : XqCli) (stamp : Bytes) :
    (xqVouch c cli stamp).req.account = setAccount c.lim stamp
    ∧ (xqVouch c cli stamp).out =
        c.out ++ (if cli.modeX || cli.modeBang then
          [sendReq (xqVouch c cli stamp).req (b "M") (b " :+x")] else []) := by
  unfold xqVouch
  dsimp only
  split <;> split <;> simp [updReq, Ctx.emit]

theorem C05_stamp_shape (lim : Limits) (stamp : Bytes) :
    (setAccount lim stamp).length ≤ lim.account ∧ ¬ (32 : UInt8) ∈ setAccount lim stamp := by
  unfold setAccount
  refine ⟨by simp [List.length_take]; omega, fun h => ?_⟩
  have h1 := List.mem_of_mem_take h
  have key : ∀ l : Bytes, (32 : UInt8) ∈ l.takeWhile (fun x => x != 32) → False := by
    intro l
    induction l with
    | nil => simp
    | cons x xs ih =>
      intro hm
      by_cases hx : (x != 32) = true
      · simp only [List.takeWhile_cons, hx, if_true, List.mem_cons] at hm
        rcases hm with e | hm
        · simp [← e] at hx
        · exact ih hm
      · simp [List.takeWhile_cons, hx] at hm
  exact key stamp h1

/-- a blank account is no account: `OK`, `OK ` and `OK  x` are plain OKs -/
theorem C05_blank_is_plain : okStamp (b "OK") = some none ∧ okStamp (b "OK ") = some none
    ∧ okStamp (b "OK  x") = some none ∧ okStamp (b "OKAY") = none ∧ okStamp (b "OK a") = some (some (b "a")) := by
  decide

/-- stamps offered by a drone-check service are not applied (the reply is counted as a plain
    OK): in `xqReply` the `xqVouch` call is guarded by the service type -/
theorem C05_dronecheck_no_stamp (st : Static) (c : Ctx) (svc : Bytes) (cli : XqCli) (i : Nat) (srv : Svc) (rep stamp : Bytes)
    (hx : c.req.xq = some cli) (hf : findRefSlot c.svcs cli svc = some (i, srv))
    (hok : okStamp rep = some (some stamp)) (hty : srv.ty = .dronecheck) :
    xqReply st c svc (some rep) =
      xqFinish st i c { cli with ok := maskAdd cli.ok i } { srv with goodNoAcct := srv.goodNoAcct + 1 } := by
  unfold xqReply
  simp only [hx, hf, hok, hty]
  rfl


set_option linter.unusedSimpArgs false in
theorem b_OK' : b "OK" = [79, 75] := by decide
set_option linter.unusedSimpArgs false in
theorem b_OKsp' : b "OK " = [79, 75, 32] := by decide
set_option linter.unusedSimpArgs false in
/-- the Spec's reading of a reply text as "OK" and the daemon's agree -/
theorem okStamp_isSome (rep : Bytes) :
    (okStamp rep).isSome = (rep == b "OK" || Hist.startsWith (b "OK ") rep) := by
  unfold okStamp Proto.startsWith Hist.startsWith
  rw [b_OK', b_OKsp']
  match rep with
  | [] => rfl
  | [a] => simp
  | [a, c] =>
    by_cases h : a = 79 ∧ c = 75
    · obtain ⟨rfl, rfl⟩ := h; rfl
    · have : ([a, c] == ([79, 75] : Bytes)) = false := by
        simp only [beq_eq_false_iff_ne, ne_eq, List.cons.injEq, and_true]; exact h
      simp [this, h]
  | a :: c :: d :: rest =>
    by_cases h : a = 79 ∧ c = 75
    · obtain ⟨rfl, rfl⟩ := h
      by_cases hd : d = 32
      · subst hd; simp; split <;> rfl
      · simp [hd]
    · have h1 : ((a :: c :: d :: rest).take 2 == ([79, 75] : Bytes)) = false := by
        simp only [List.take, beq_eq_false_iff_ne, ne_eq, List.cons.injEq, and_true]; exact h
      have h2 : ((a :: c :: d :: rest).take 3 == ([79, 75, 32] : Bytes)) = false := by
        simp only [List.take, beq_eq_false_iff_ne, ne_eq, List.cons.injEq, and_true]
        intro hx; exact h ⟨hx.1, hx.2.1⟩
      have h3 : ((a :: c :: d :: rest) == ([79, 75] : Bytes)) = false := by simp
      simp [h1, h2, h3]
      have hn : ¬((a = 79 ∧ c = 75) ∧ d = 32) := fun hx => h hx.1
      rw [if_neg hn]
      by_cases ha : a = 79
      · by_cases hc : c = 75
        · exact absurd ⟨ha, hc⟩ h
        · simp [hc]
      · simp [ha]

/-- … so the trace judge (`replyKind`) and the daemon (`okStamp`) take the same replies for an OK -/
theorem C05_ok_readers_agree (rep : Bytes) :
    (match Hist.replyKind true rep with | .ok => true | .okAcct _ => true | _ => false) = (okStamp rep).isSome := by
  rw [okStamp_isSome]
  unfold Hist.replyKind
  simp only [Bool.not_true, Bool.false_eq_true, if_false]
  by_cases h1 : (rep == b "OK") = true
  · simp [h1]
  · have h1' : (rep == b "OK") = false := by simpa using h1
    simp only [h1', Bool.false_eq_true, if_false, Bool.false_or]
    by_cases h2 : Hist.startsWith (b "OK ") rep = true
    · simp only [h2, if_true]
      by_cases he : (((rep.drop 3).takeWhile (· != 32)).take 64).isEmpty = true
      · simp only [he, if_true]
      · simp only [he, if_false, Bool.false_eq_true]
    · have h2' : Hist.startsWith (b "OK ") rep = false := by simpa using h2
      simp only [h2', Bool.false_eq_true, if_false]
      by_cases h3 : Hist.startsWith (b "NO ") rep = true
      · simp only [h3, if_true]
      · simp only [h3, if_false, Bool.false_eq_true]
        by_cases h4 : Hist.startsWith (b "AGAIN ") rep = true
        · simp only [h4, if_true]
        · simp only [h4, if_false, Bool.false_eq_true]
          by_cases h5 : Hist.startsWith (b "MORE ") rep = true
          · simp only [h5, if_true]
          · simp only [h5, if_false, Bool.false_eq_true]

end Iauthd.Properties
