import Iauthd.Proto.Props
import Iauthd.Addr.ProofsMask
import Iauthd.Properties.C17
/-
  Property C11 — "Class rules: the first matching rule in name order decides" (model part).
  `fnmatch(…, 0)` is the modelled `glob` (subset `* ? \c` and literals; trusted to agree with
  libc on that subset); the address criterion is `irc_check_mask`, characterised by C13's
  `mask_spec`.  The rule vector is compiled from the object children of the section in set
  order (case-insensitive name order): `classChanged`.
-/
namespace Iauthd.Properties
open Iauthd Iauthd.Proto

theorem C11_first_match (st : Static) (pre post : List Rule) (rule : Rule) (c c' : Ctx) (rules' : List Rule)
    (hpre : ∀ q ∈ pre, ruleMatches c.svcs q c.req = false) (hm : ruleMatches c.svcs rule c.req = true)
    (h : classRules st (pre ++ rule :: post) c = .ok (c', rules')) :
    c'.req.cls = strlcpyN c.lim.cls (rule.cls.getD rule.name)
      ∧ rules' = pre ++ { rule with assigned := rule.assigned + 1 } :: post :=
  classRules_first_match st pre post rule c c' rules' hpre hm h

theorem C11_no_match (st : Static) (rules : List Rule) (c : Ctx)
    (hno : ∀ q ∈ rules, ruleMatches c.svcs q c.req = false) : classRules st rules c = .ok (c, rules) :=
  classRules_none st rules c hno

theorem C11_criteria (svcs : List (Option Svc)) (rule : Rule) (r : Req) :
    ruleMatches svcs rule r = true ↔
      (∀ p, rule.account = some p → glob p (accountBase r.account) = true)
      ∧ (rule.bits = 0 ∨ checkMaskC r.addr rule.addr rule.bits = true)
      ∧ (∀ p, rule.username = some p → glob p r.authUser = true)
      ∧ (∀ p, rule.hostname = some p → glob p r.hostname = true)
      ∧ (∀ n, rule.xreplyOk = some n → xreplyOk svcs r n > 0) :=
  ruleMatches_iff svcs rule r

/-- the class buffer keeps at most CLASSLEN - 1 bytes -/
theorem C11_class_len (n : Nat) (s : Bytes) : (strlcpyN n s).length ≤ n - 1 := by
  unfold strlcpyN; simp [List.length_take]; omega

/-! ### the rules in force are the last file's -/

theorem ruleMatches_kernel (svcs : List (Option Svc)) (q : Rule) (r : Req) :
    ruleMatches svcs (kernelR q) r = ruleMatches svcs q r := rfl

/-- **C11 over a whole session**: start the daemon (with the class module) on any file, let any
    histories of input and timer expiries and any reloads go by.  Whenever a client is then put to the
    rule table, the first rule *of the last file loaded* - in the order of the configuration set -
    that matches it gives it its class (the rule's `class` value, or its name), cut to the class buffer.
    `pre`, `rule`, `post` split the compilation of that file's section. -/
theorem C11_session_first_match (hasXq : Bool) (lim : Limits) (hacc : 0 < lim.account) (hx : hasXq = true)
    (cfg : Config) (segs : List Seg) (s' : State) (live' : Config)
    (hrun : runSession (applyConfig { hasXq := hasXq, hasClass := true, lim := lim } {} cfg true) segs = .ok (s', live'))
    (st : Static) (c c' : Ctx) (rules' : List Rule) (pre post : List Rule) (rule : Rule)
    (hsplit : eraseR (compileSec live'.cls) = pre ++ rule :: post)
    (hpre : ∀ q ∈ pre, ruleMatches c.svcs q c.req = false) (hm : ruleMatches c.svcs rule c.req = true)
    (h : classRules st s'.rules c = .ok (c', rules')) :
    c'.req.cls = strlcpyN c.lim.cls (rule.cls.getD rule.name) := by
  have hr : eraseR s'.rules = pre ++ rule :: post := by
    rw [← hsplit]; exact C17_rules_from_boot hasXq lim hacc cfg segs s' live' hx hrun
  unfold eraseR at hr
  obtain ⟨pre', rest', e1, e2, e3⟩ := List.map_eq_append_iff.mp hr
  obtain ⟨rule', post', e4, e5, e6⟩ := List.map_eq_cons_iff.mp e3
  subst e4
  rw [e1] at h
  have hpre' : ∀ q ∈ pre', ruleMatches c.svcs q c.req = false := by
    intro q hq
    rw [← ruleMatches_kernel]
    exact hpre _ (by rw [← e2]; exact List.mem_map_of_mem hq)
  have hm' : ruleMatches c.svcs rule' c.req = true := by
    rw [← ruleMatches_kernel, e5]; exact hm
  have := (C11_first_match st pre' post' rule' c c' rules' hpre' hm' h).1
  rw [this, ← e5]
  rfl

/-- **the rule table is in name order**: the rules compiled from a file's class section ascend
    strictly in the case-insensitive order of their names - "first" in `C11_first_match` is first in
    that order, for every file whose names are C strings -/
theorem C11_rules_in_name_order (file : List CNode) (h : ∀ n ∈ file, NoNul n.name) :
    (compileSec (sortSection file)).Pairwise fun a c => Bytes.strcasecmp a.name c.name < 0 := by
  have hs := (sortSection_sorted_nonul file h).1
  unfold SecSorted at hs
  unfold compileSec
  rw [List.pairwise_map]
  refine (hs.filter _).imp_of_mem ?_
  intro a c ha hc hlt
  have hna : a.isString = false := by simpa using (List.mem_filter.mp ha).2
  show Bytes.strcasecmp (compileRule a).name (compileRule c).name < 0
  unfold cnodeLt at hlt
  simp only [hna, Bool.false_and, Bool.and_false, Bool.or_false, decide_eq_true_eq] at hlt
  exact hlt

end Iauthd.Properties
