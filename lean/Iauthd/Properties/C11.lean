import Iauthd.Proto.Props
import Iauthd.Addr.ProofsMask
/-
  Property C11 — "Class rules: the first matching rule in name order decides" (model part).
  `fnmatch(…, 0)` is the modelled `glob` (subset `* ? \c` and literals; trusted to agree with
  libc on that subset); the address criterion is `irc_check_mask`, characterised by C13's
  `mask_spec`.  The rule vector is compiled from the object children of the section in set
  order (case-insensitive name order): `classChanged`.
-/
namespace Iauthd.Properties
open Iauthd Iauthd.Proto

theorem C11_first_match (st : Static) (pre post : List Rule) (rule : Rule) (c c' : Ctx) (rules' : List Rule)
    (hpre : ∀ q ∈ pre, ruleMatches c.svcs q c.req = false) (hm : ruleMatches c.svcs rule c.req = true)
    (h : classRules st (pre ++ rule :: post) c = .ok (c', rules')) :
    c'.req.cls = strlcpyN c.lim.cls (rule.cls.getD rule.name)
      ∧ rules' = pre ++ { rule with assigned := rule.assigned + 1 } :: post :=
  classRules_first_match st pre post rule c c' rules' hpre hm h

theorem C11_no_match (st : Static) (rules : List Rule) (c : Ctx)
    (hno : ∀ q ∈ rules, ruleMatches c.svcs q c.req = false) : classRules st rules c = .ok (c, rules) :=
  classRules_none st rules c hno

theorem C11_criteria (svcs : List (Option Svc)) (rule : Rule) (r : Req) :
    ruleMatches svcs rule r = true ↔
      (∀ p, rule.account = some p → glob p (accountBase r.account) = true)
      ∧ (rule.bits = 0 ∨ checkMaskC r.addr rule.addr rule.bits = true)
      ∧ (∀ p, rule.username = some p → glob p r.authUser = true)
      ∧ (∀ p, rule.hostname = some p → glob p r.hostname = true)
      ∧ (∀ n, rule.xreplyOk = some n → xreplyOk svcs r n > 0) :=
  ruleMatches_iff svcs rule r

/-- the class buffer keeps at most CLASSLEN - 1 bytes -/
theorem C11_class_len (n : Nat) (s : Bytes) : (strlcpyN n s).length ≤ n - 1 := by
  unfold strlcpyN; simp [List.length_take]; omega

end Iauthd.Properties
