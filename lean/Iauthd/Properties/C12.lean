import Iauthd.Addr.Proofs
