import Iauthd.Addr.Proofs
/-
  C12 — address text round-trips for every address.

  "For every 128-bit address, the text the daemon produces is accepted by its own parser and
   by the standard library parser and denotes the same address (IPv4-compatible addresses
   canonicalise to IPv4-mapped), never begins with ':' and fits the documented buffer size;
   parsing any accepted plain address and printing it again is idempotent."

  Model: `Iauthd.Addr.ntop` / `ptonWith fx` (Model.lean: the printer after fix_ntop.diff; the
         parser both as it is now, `fx = false`, and after fix_pton_cidr.diff, `fx = true`).
  Spec:  `refParse`, `canon` (Spec.lean); the judge evaluates `c12Check` on the C code.
  The statements below are the headline theorems; their proofs are in Iauthd/Addr/Proofs*.lean.
-/
namespace Iauthd.Properties
open Iauthd Iauthd.Addr

/-- **C12** for the model of the repaired code, every address `a`:
    1. the text fits the 40-byte buffer (≤ 39 characters, nothing cut, returned length exact);
    2. it does not begin with ':';
    3. the standard (reference) grammar accepts it as `canon a`;
    4. the daemon's own parser accepts all of it as `canon a`, without a fault;
    5. printing the reparsed address gives the same text. -/
theorem C12 (fx : Bool) (a : Addr) :
    ((ntop a 40).2 ≤ 39 ∧ (ntop a 40).1.length = (ntop a 40).2) ∧
    (ntop a 40).1.head? ≠ some 58 ∧
    refParse (ntop a 40).1 = some (canon a) ∧
    ptonWith fx (ntop a 40).1 false false = .ok ⟨(ntop a 40).1.length, canon a, none, false⟩ ∧
    (ntop (canon a) 40).1 = (ntop a 40).1 := by
  refine ⟨⟨(ntop_len a).1, (ntop_len a).2.1⟩, ntop_no_colon a 40, ntop_ref a, ntop_pton fx a, ?_⟩
  rw [(ntop_len (canon a)).2.2, (ntop_len a).2.2]
  exact ntop_canon a

/-- idempotence in the property's own wording: any accepted plain address text, printed,
    parsed and printed again, is a fixed point -/
theorem C12_idempotent (fx : Bool) (s : Bytes) (r : PtonRes) (h : ptonWith fx s false false = .ok r)
    (hacc : r.ret ≠ 0) :
    ∃ r', ptonWith fx (ntop r.addr 40).1 false false = .ok r' ∧ r'.ret = (ntop r.addr 40).1.length ∧
      (ntop r'.addr 40).1 = (ntop r.addr 40).1 :=
  print_parse_print fx s r h hacc

/-- the judge's predicate holds of the model's own observations -/
theorem C12_judge_on_model (a : Addr) :
    c12Check a (ntop a 40).2 (ntop a 40).1 (ntop a 40).1.length (canon a) true (canon a) (ntop a 40).1 = none := by
  obtain ⟨⟨h1, h2⟩, h3, h4, _, _⟩ := C12 false a
  have hne : (ntop a 40).1 ≠ [] := by
    rw [(ntop_len a).2.2]; exact (ntopFull_props a).2.2
  have hemp : (ntop a 40).1.isEmpty = false := by
    cases h : (ntop a 40).1 with
    | nil => exact absurd h hne
    | cons _ _ => rfl
  unfold c12Check
  simp [h2, h3, h4, hemp]
  omega

/-! non-vacuity: the hypotheses of `C12_idempotent` are satisfiable, and `canon` is not the
    identity (an IPv4-compatible address really is printed and re-read as IPv4-mapped) -/

example : ∃ s r, ptonWith false s false false = .ok r ∧ r.ret ≠ 0 :=
  ⟨(ntop (Addr.ofList [1, 0, 0, 0, 0, 0, 0, 2]) 40).1, _, ntop_pton false _, by decide⟩

example : canon (Addr.ofList [0, 0, 0, 0, 0, 0, 0x7f00, 1]) = Addr.ofList [0, 0, 0, 0, 0, 0xffff, 0x7f00, 1] := by
  decide

example : (ntop (Addr.ofList [0, 0, 0, 0, 0, 0, 0x7f00, 1]) 40).1 = [49, 50, 55, 46, 48, 46, 48, 46, 49] := by
  decide

/-- the statement fails for the pinned printer (F7, F8) -/
example : refParse (ntopPinned (Addr.ofList [1, 0, 0, 2, 0, 3, 0, 0]) 40).1
    ≠ some (canon (Addr.ofList [1, 0, 0, 2, 0, 3, 0, 0])) := by decide

end Iauthd.Properties
