import Iauthd.Conf.ProofsHooks
import Iauthd.Conf.ProofsRegister
import Iauthd.Conf.Counterexamples
import Iauthd.Conf.Judge
/-
  Property C15 — "Reload is deterministic: last good file plus defaults".

  Formal reading (repaired text of config.c: `Variant` with f9, f13, f14 set; the pinned
  text fails each clause, see Counterexamples.lean).

    * `Settled sv file kids` is the canonical form: the live siblings `kids` are aligned
      with the file's entries for their parent; a node the file mentions is `present`,
      carries the file's value (string byte-for-byte, list items in order, host/service
      pair, recursively for objects) and a cached parse consistent with it; every other
      node is `specified` (registered), not `present` and `ValDefault`: its value is its
      registered default.  No third kind of node exists: unregistered leftovers are gone.
    * `load_settles`: after ANY successful load, from ANY prior state (whatever was loaded
      or registered before), the live tree is `Settled` with respect to that file.
    * `load_idempotent` / `load_twice`: loading the same content again changes nothing
      (the trees are equal up to the identity of freshly allocated strings: `stripL`) and
      the hook log of the second load is empty.
    * `merge_no_fault`: no double free / use after free in the merge (F9).
    * hooks: `str_hook_iff`, `list_hook_iff`, `pair_hook_iff` + `updInaddr_val`: the
      node's hook runs iff one is installed and its effective value changed;
      `walk_unmodified_keys`: an object whose hook is not due kept its membership.

    * histories: `history_no_fault`: no sequence of loads (valid or not) and registrations
      (at any point) commits a memory error; `C15_canonical`: whatever that history was, a
      successful load leaves the tree `Settled` for its file — independence of earlier
      files and of everything registered before the load;
    * registration after a load: `register_lookup` + `regStr_value`, `regList_value`,
      `regInaddr_value` (repaired F15, F16): the setting is found under its key, is
      `specified`, carries the registered default, and its value is the file's value when
      the file gave one (`present`) and the registered default otherwise.

  Not proved here (exact carve-outs):
    * that a registration after the last load preserves `Settled` for the *whole* sibling
      list (the lookup theorem above is per setting; the alignment of the list needs the
      order laws of `conf_object_cmp`); re-registration of one path with a different
      default; the judge checks both on every run;
    * for objects, "hook ⇒ membership changed" (needs sortedness of both child lists).
-/
namespace Iauthd.Properties
open Iauthd Iauthd.Conf

/-- the repaired variant, as far as C15's theorems need it -/
def C15Variant (V : Variant) : Prop := V.f9 = true ∧ V.f13 = true ∧ V.f14 = true

theorem C15_fixed : C15Variant Variant.fixed := ⟨rfl, rfl, rfl⟩

theorem C15 (V : Variant) (hV : C15Variant V) (sv : Bool) (st : State) (body : Bytes) (hst : StateOK st) :
    ∃ st1 o1 st2 o2,
      confRead V sv st body = .ok (st1, o1) ∧ StateOK st1 ∧
      (∀ scratch, parseFile V body = .ok scratch → Settled sv scratch st1.kids) ∧
      confRead V sv st1 body = .ok (st2, o2) ∧
      o2.hooks = [] ∧ stripL st2.kids = stripL st1.kids ∧ o2.rc = o1.rc := by
  obtain ⟨h9, _, h14⟩ := hV
  obtain ⟨st1, o1, h1, ok1⟩ := merge_no_fault V h9 sv st body hst
  obtain ⟨st2, o2, h2, _⟩ := merge_no_fault V h9 sv st1 body ok1
  exact ⟨st1, o1, st2, o2, h1, ok1, fun scratch hp => load_settles V h9 h14 sv st st1 body o1 scratch hp h1, h2,
    load_idempotent V h9 h14 sv st st1 st2 body o1 o2 h1 h2⟩

/-- non-vacuity: the initial state satisfies the invariant; a file with all four node
    kinds loads, and on the second load of the same file nothing is notified although
    every node carries a hook -/
example : StateOK {} := stateOK_init

example :
    Cex.rcOf (Cex.loads .fixed true {} [Cex.s "a b\nc (d, e)\nf g h\ni { j k }\n", Cex.s "a b\nc (d, e)\nf g h\ni { j k }\n"]) = 0 ∧
    Cex.hooksOf (Cex.loads .fixed true {} [Cex.s "a b\nc (d, e)\nf g h\ni { j k }\n", Cex.s "a b\nc (d, e)\nf g h\ni { j k }\n"]) = [] := by
  decide +kernel

end Iauthd.Properties
