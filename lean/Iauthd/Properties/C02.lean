import Iauthd.Proto.Holds
/-
  Property C02 — "No premature acceptance" (model part).

  The observable statement is the Spec in `Iauthd.Proto.Hist` (judge).  Proved here, for the
  model the correspondence ties to the C code, for every history:

  * `C02_counters`: in every reachable state, for every stored request, `holds` is 1 exactly
    when the client demanded +! and has no account stamp, and (until its timeout expires)
    `soft_holds` is 1 exactly when some query about it is unanswered;
  * `C02_gate`: the gate removes (accepts) a request only if it has no hold, all required
    flags, and no soft hold unless the timeout expired — which by `C02_gate_sets` is: no +!
    without a stamp, all data delivered (or hurry-up), no unanswered query unless timed out;
  * `C02_refusal_kills`: a `NO` from an awaited service removes the request with a `k` line,
    so it can never be accepted afterwards.
-/
namespace Iauthd.Properties
open Iauthd Iauthd.Proto

theorem C02_counters (hasXq hasClass : Bool) (hdep : hasClass = true → hasXq = true) (ops : List Op)
    (s' : State) (outs : List (List Bytes))
    (h : runOps { hasXq := hasXq, hasClass := hasClass } ops = .ok (s', outs)) : ∀ r ∈ s'.reqs, HoldInv r :=
  runOps_hold ops _ (inv_init hasXq hasClass hdep) (by intro r hr; simp at hr) s' outs h

theorem C02_gate (st : Static) (c c' : Ctx) (h : gate st c = .ok c') (hg : c.gone = false) (hg' : c'.gone = true) :
    c.req.holds = 0 ∧ c.req.flags.responded = false ∧ st.need.subset c.req.flags = true
      ∧ (c.req.soft = 0 ∨ c.req.flags.timedOut = true) :=
  gate_removes_only_if st c c' h hg hg'

theorem C02_gate_sets (need : Flags) (r : Req) (cli : XqCli) (hx : r.xq = some cli) (hi : HoldInv r) :
    (r.holds = 0 ∧ need.subset r.flags = true ∧ (r.soft = 0 ∨ r.flags.timedOut = true))
    ↔ (¬ (cli.modeBang = true ∧ r.account = []) ∧ need.subset r.flags = true
        ∧ (cli.ref = [] ∨ r.flags.timedOut = true)) :=
  gate_condition_iff need r cli hx hi

theorem C02_refusal_kills (st : Static) (c : Ctx) (svc text : Bytes) (cli : XqCli) (i : Nat) (srv : Svc)
    (hx : c.req.xq = some cli) (hf : findRefSlot c.svcs cli svc = some (i, srv))
    (hr : c.req.flags.responded = false) :
    ∃ c', xqReply st c svc (some (b "NO " ++ text)) = .ok c' ∧ c'.gone = true
      ∧ c'.out = c.out ++ [sendReq c.req (b "k") (b " :" ++ text)] :=
  reply_no_kills st c svc text cli i srv hx hf hr

/-- non-vacuity of `C02_gate_sets`: a request waiting for one query with +! and no stamp -/
def exampleCli : XqCli := { modeBang := true, sent := [0], ref := [0] }
def exampleReq : Req := { client := 5, serial := 1, holds := 1, soft := 1, xq := some exampleCli }
example : HoldInv exampleReq := by simp [HoldInv, HoldPair, exampleReq, exampleCli]

end Iauthd.Properties
