#!/usr/bin/env python3
"""Entry point of every registered check (MANIFEST.json).

  python3 check.py --setup
  python3 check.py Cxx [--tier quick|thorough] [--seed N]
  python3 check.py Cxx --replay <replay.json>

Decision protocol: DESIGN.md section 4.
"""
import argparse
import importlib
import json
import os
import sys
import time

sys.path.insert(0, os.path.dirname(os.path.abspath(__file__)))
from vlib import core  # noqa: E402
from vlib.core import Case, Finding, log  # noqa: E402

PROP_ENGINE = {
    "C01": "proto", "C02": "proto", "C03": "proto", "C04": "proto", "C05": "proto",
    "C06": "proto", "C07": "proto", "C08": "proto", "C09": "proto", "C10": "proto",
    "C11": "proto", "C12": "addr", "C13": "addr", "C14": "conf", "C15": "conf",
    "C16": "conf", "C17": "proto", "C18": "logeng", "C19": "set", "C20": "module",
}


def engine_for(prop):
    return importlib.import_module("vlib.eng_" + PROP_ENGINE[prop])


def setup():
    """Build the Lean targets of every property registered in MANIFEST.json."""
    t0 = time.time()
    man = json.load(open(os.path.join(core.VERIF, "MANIFEST.json")))
    targets = []
    for c in man.get("checks", []):
        eng = engine_for(c["property_id"])
        for t in eng.lean_targets(c["property_id"]):
            if t not in targets:
                targets.append(t)
    ok, out, dt = core.lean_build(targets)
    sys.stdout.write(out[-3000:])
    print("lake build %s: %s in %.1fs" % (" ".join(targets), "ok" if ok else "FAILED", time.time() - t0))
    return 0 if ok else 1


def evaluate(eng, prop, cases, impl, model, spec, proj="default"):
    """Compare the three record streams per case.  Returns findings (judge first)."""
    is_default = proj == "default"
    if is_default:
        proj = eng.projector(prop)
    findings = []
    for c, ir, mr, sr in zip(cases, impl, model, spec):
        n_ops = len(c.lines) - 1
        if hasattr(eng, "judge"):
            try:
                j = eng.judge(prop, c, ir, sr, mr)
            except TypeError:
                j = eng.judge(prop, c, ir, sr)
        else:
            j = None
        if j is None and sr is not None:
            jd = core.first_diff(ir, sr, proj)
            if jd is not None:
                j = (jd, "implementation %r, property spec %r" % (
                    ir[jd] if jd < len(ir) else "<missing>", sr[jd] if jd < len(sr) else "<missing>"))
        elif j is False:
            j = None
        if j is not None:
            findings.append(Finding(c, "judge", j[0], j[1], ir, mr, sr, name=eng.spec_name(prop)))
            continue
        if mr is not None:
            cproj = eng.case_projector(prop, c) if (is_default and hasattr(eng, "case_projector")) else (
                proj.for_case(c) if hasattr(proj, "for_case") else proj)
            d = core.first_diff(ir, mr, cproj)
            if d is None and len(ir) != n_ops:
                d = min(len(ir), n_ops)
            if d is not None:
                findings.append(Finding(c, "divergence", d, "implementation %r, model %r" % (
                    ir[d] if d < len(ir) else "<missing>", mr[d] if d < len(mr) else "<missing>"),
                    ir, mr, sr, name=eng.correspondence_name(prop)))
    if hasattr(eng, "judge_all"):
        have = {id(f.case) for f in findings if f.kind == "judge"}
        for f in eng.judge_all(prop, cases, impl, model, spec):
            if id(f.case) not in have:
                # a cross-case judge failure outranks a divergence on the same case
                findings = [g for g in findings if g.case is not f.case] + [f]
    return findings


def run_all(eng, prop, harness, cases):
    hcmd = eng.harness_cmd(harness, prop)
    impl, errs = core.run_cases(hcmd, cases)
    drv = core.drv_path(eng.DRIVER)
    margs = eng.model_args(prop)
    sargs = eng.spec_args(prop)
    model = core.run_cases([drv] + margs, cases)[0] if margs is not None else [None] * len(cases)
    if sargs is None:
        spec = [None] * len(cases)
    elif sargs == "trace":
        spec = eng.run_trace_judge(prop, cases, impl)
    else:
        spec = core.run_cases([drv] + sargs, cases)[0]
    return impl, model, spec, errs


def shrink(eng, prop, harness, finding):
    """ddmin the case while the same kind of finding persists."""
    if getattr(finding, "group", None):
        return finding        # cross-case finding: the group is the replay
    fixed = eng.header_len(finding.case)

    def fails(lines):
        c = Case("shrink", lines[1:])
        impl, model, spec, _ = run_all(eng, prop, harness, [c])
        fs = evaluate(eng, prop, [c], impl, model, spec)
        return any(f.kind == finding.kind for f in fs)

    lines = core.ddmin(finding.case.lines, fixed, fails)
    c = Case(finding.case.name + "/shrunk", lines[1:], origin=finding.case.origin)
    impl, model, spec, _ = run_all(eng, prop, harness, [c])
    fs = [f for f in evaluate(eng, prop, [c], impl, model, spec) if f.kind == finding.kind]
    return fs[0] if fs else finding


def check(prop, tier, seed, replay=None):
    t0 = time.time()
    eng = engine_for(prop)
    known = core.load_known_findings(prop)
    violations = []          # (finding, suffix)
    known_hits = {}
    notes = []
    with core.Workdir() as wd:
        # 1-2. proofs
        lean = core.lean_audit(prop, eng.theorems(prop), eng.lean_imports(prop), eng.lean_targets(prop))
        if tier == "thorough":
            for pb in core.leanchecker(eng.lean_modules(prop)):
                lean.ok = False
                lean.problems.append(pb)
        # 3. harness
        harness, hlog = eng.build_harness(wd, prop)
        cov = {}
        if harness is None:
            f = Finding(Case("harness-build", []), "harness", 0, "harness does not build against %s:\n%s" % (core.repo(), hlog),
                        name=eng.correspondence_name(prop))
            violations.append((f, " no-failing-input-found"))
            cases, impl = [], []
        else:
            # 4. corpus, then generated inputs
            if replay:
                doc = json.load(open(replay))
                if doc.get("group"):
                    cases = [Case(g["name"], g["lines"][1:], tags=g.get("tags"), origin="replay") for g in doc["group"]]
                else:
                    cases = [Case("replay", doc["case"][1:], origin="replay")]
            else:
                cases = core.load_corpus(prop, eng.NAME)
                for k in known:
                    if k.get("witness"):
                        cases.append(Case("known/" + k["id"], k["witness"], origin="known"))
                cases += eng.gen_cases(prop, tier, seed)
            impl, model, spec, errs = run_all(eng, prop, harness, cases)
            findings = evaluate(eng, prop, cases, impl, model, spec)
            judge_f = [f for f in findings if f.kind == "judge"]
            div_f = [f for f in findings if f.kind == "divergence"]
            # group judge failures by signature; shrink one representative per group
            groups = {}
            for f in judge_f:
                f.signature = eng.classify(prop, f)
                groups.setdefault(f.signature, []).append(f)
            for sig, fs in groups.items():
                rep = shrink(eng, prop, harness, fs[0])
                rep.signature = eng.classify(prop, rep)
                kn = [k for k in known if k.get("status") == "finding" and k.get("signature") == rep.signature]
                if kn:
                    known_hits[kn[0]["id"]] = (kn[0], len(fs))
                else:
                    violations.append((rep, ""))
            if not violations and div_f:
                # correspondence broken without a property failure on those inputs: search
                rep = shrink(eng, prop, harness, div_f[0])
                found = None
                extra = eng.search_cases(prop, rep, seed) if hasattr(eng, "search_cases") else []
                if extra:
                    i2, m2, s2, _ = run_all(eng, prop, harness, extra)
                    for f in evaluate(eng, prop, extra, i2, m2, s2):
                        if f.kind == "judge":
                            f.signature = eng.classify(prop, f)
                            if not any(k.get("status") == "finding" and k.get("signature") == f.signature for k in known):
                                found = shrink(eng, prop, harness, f)
                                break
                    cov["search_cases"] = len(extra)
                if not found and hasattr(eng, "build_plain_harness") and any(
                        "fault" in str(f.detail) for f in [rep] + div_f[:20]):
                    # the sanitizer stops the process at the first foreign access; what the program
                    # as shipped (no sanitizer) goes on to do is judged too, on the diverging inputs
                    ph, _plog = eng.build_plain_harness(wd, prop)
                    if ph:
                        pc = [rep.case] + [f.case for f in div_f[:20]]
                        i3, m3, s3, _ = run_all(eng, prop, ph, pc)
                        for f in evaluate(eng, prop, pc, i3, m3, s3):
                            if f.kind == "judge":
                                f.signature = eng.classify(prop, f)
                                f.detail = "(harness built without sanitizers) " + str(f.detail)
                                found = f
                                break
                        cov["plain_rerun_cases"] = len(pc)
                if found:
                    violations.append((found, ""))
                else:
                    violations.append((rep, " no-failing-input-found"))
            if not violations and not lean.ok:
                # proof obligation broken: the exploration above was the search
                f = Finding(Case("proof-obligation", []), "proof", 0, "; ".join(lean.problems)[:3000],
                            name=",".join(th for th, ax in lean.theorems.items() if ax is None) or "lake build")
                violations.append((f, " no-failing-input-found"))
            # additional harnesses over the same model and judges (e.g. the real program end to end)
            if not violations and not replay and hasattr(eng, "extra_runs"):
                for ex in eng.extra_runs(prop, tier, seed, wd):
                    if ex.get("error"):
                        f = Finding(Case(ex["name"], []), "harness", 0, ex["error"], name=ex["name"])
                        violations.append((f, " no-failing-input-found"))
                        continue
                    eimpl, eerrs = core.run_cases(ex["cmd"], ex["cases"], workers=ex.get("workers"))
                    drv = core.drv_path(eng.DRIVER)
                    emodel = core.run_cases([drv] + eng.model_args(prop), ex["cases"])[0]
                    esargs = eng.spec_args(prop)
                    if esargs == "trace":
                        espec = eng.run_trace_judge(prop, ex["cases"], eimpl)
                    elif esargs is None:
                        espec = [None] * len(ex["cases"])
                    else:
                        espec = core.run_cases([drv] + esargs, ex["cases"])[0]
                    efind = evaluate(eng, prop, ex["cases"], eimpl, emodel, espec, ex.get("projector"))
                    for f in efind[:3]:
                        f.name = ex["name"] + ": " + str(f.name)
                        f.signature = eng.classify(prop, f)
                        f.group = [f.case]      # not shrunk: the run is slow and timing-bound
                        violations.append((f, "" if f.kind == "judge" else " no-failing-input-found"))
                    cov.setdefault("extra_runs", {})[ex["name"]] = {"cases": len(ex["cases"]), "findings": len(efind),
                                                                   "sample": ex["cases"][0].lines[:12] if ex["cases"] else []}
            cov.update(eng.coverage(prop, tier, cases, impl, model, spec))
            if errs:
                notes.append("tool stderr (first): " + errs[0][-600:])
        # report
        for kid, (k, n) in known_hits.items():
            print("KNOWN-FINDING: property=%s %s (%d case(s) this run)" % (prop, k.get("what", kid), n))
        paths = []
        for f, suffix in violations:
            extra = None
            if getattr(f, "group", None):
                extra = {"group": [{"name": c.name, "lines": c.lines, "tags": c.tags} for c in f.group]}
            p = core.write_replay(prop, eng.NAME, f, seed, extra)
            paths.append(p)
            print("VIOLATION property=%s replay=%s%s" % (prop, p, suffix))
            log("  kind=%s op#%s: %s" % (f.kind, f.idx, str(f.detail)[:500]))
        cov["known_findings_replayed"] = sorted(known_hits)
        cov["notes"] = notes
        cov["repo"] = core.repo()
        core.write_evidence(prop, tier, seed, lean, cov, eng.assumptions(prop), time.time() - t0,
                            len(violations), eng.checker_cmd(prop), eng.trusted_base(prop))
    if not violations:
        print("OK property=%s tier=%s seed=%d cases=%d theorems=%d wall=%.1fs" % (
            prop, tier, seed, len(cases), len(lean.theorems), time.time() - t0))
    return 1 if violations else 0


def main():
    ap = argparse.ArgumentParser()
    ap.add_argument("prop", nargs="?")
    ap.add_argument("--setup", action="store_true")
    ap.add_argument("--tier", default=os.environ.get("VERIF_TIER", "quick"))
    ap.add_argument("--seed", type=int, default=int(os.environ.get("VERIF_SEED", "1") or 1))
    ap.add_argument("--replay")
    a = ap.parse_args()
    if a.setup:
        return setup()
    if not a.prop or a.prop not in PROP_ENGINE:
        ap.error("property id C01..C20 required")
    if a.tier not in ("quick", "thorough"):
        a.tier = "quick"
    return check(a.prop, a.tier, a.seed, a.replay)


if __name__ == "__main__":
    sys.exit(main())
