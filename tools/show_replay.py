#!/usr/bin/env python3
"""pretty-print a Proto replay file"""
import json, sys
def dec(h):
    if h in ('=','-','?'): return ''
    try: return bytes.fromhex(h).decode('latin-1')
    except ValueError: return h
d=json.load(open(sys.argv[1]))
print(d['property'], d['kind'], 'op#', d['failing_op_index'], d['detail'][:300])
ops=d['case'][1:]
ir=d.get('implementation_records') or []
mr=d.get('model_records') or []
for i,o in enumerate(ops):
    f=o.split(' ')
    if f[0] in ('in','conf','reload') and len(f)>1:
        txt=dec(f[1])
        print('%3d %s %r %s'%(i,f[0],txt if f[0]=='in' else txt[:0], ' '.join(f[2:]) if f[0]!='in' else ''))
        if f[0]!='in': print('      '+txt.replace('\n','\n      '))
    else: print('%3d %s'%(i,o))
    for tag,recs in (('impl',ir),('modl',mr)):
        if i<len(recs):
            r=recs[i].split(' ')
            shown=[]
            for x in r:
                shown.append(repr(dec(x)) if len(x)>6 and all(c in '0123456789abcdef' for c in x) else x)
            print('      %s: %s'%(tag,' '.join(shown)))
