#!/bin/sh
# usage: [B=8] tools/seed8.sh <Axx|Rxx>  - confirm a role/area change of batch $B (/tmp/seed$B), copy it to
# seeded/<prop>-<B>x<k>, try it against the check of the property its author named
B=${B:-8}
a=$1
out=/tmp/seed$B/out_$a
prop=$(python3 -c "import json;print(json.load(open('$out/meta.json'))['property'].strip()[:3])")
demo=$(ls $out | grep -E "^(run_)?demo.*\.(py|sh)$" | head -1)
case "$demo" in *.py) run="python3 $out/$demo";; *) run="sh $out/$demo";; esac
/verif/tools/confirm_seed.sh /tmp/seed$B/$a $out $run | tail -1
sfx=$(echo $a | sed 's/^[A-Z]0*//')
d=/verif/seeded/$prop-${B}x$sfx; mkdir -p $d
for f in $out/*; do case "$f" in *.log|*/__pycache__) ;; *) [ -f "$f" ] && cp "$f" $d/;; esac; done
echo "--> $d"
SEEDS="${SEEDS:-1 2}" /verif/tools/try_seed.sh $d $prop 2>&1 | grep -E "^OK|^VIOLATION|kind=" | cut -c1-220
