#!/usr/bin/env python3
"""Regenerate /verif/MANIFEST.json from the table below (single source of the per-property texts)."""
import json
import os
import sys

HERE = os.path.dirname(os.path.dirname(os.path.abspath(__file__)))

NOTE = ("Trusted: Lean 4.33 kernel (axioms of every listed theorem are audited on each run and must lie within propext / "
        "Classical.choice / Quot.sound; no native_decide, bv_decide, sorry or own axioms), the hand-written model (tied to the C "
        "code only by the sampled correspondence run on every check), the Spec definitions (our reading of the property), "
        "harnesses/generators/orchestrator (ours), gcc + ASan/UBSan, libevent, glibc.")

# id -> (engine, claimed?, level text, technique, design ref)
P = {
 "C01": ("proto", True,
  "Lean theorem C01_history: for every history of input chunks and timer expiries from the started daemon, the model's line-level trace is accepted "
  "by the reader Spec01 (every client-directed line and query names a live instance; one soft-done, one verdict and one serial per instance; "
  "nothing after the verdict), with the trace proved to be the run (C01_trace_faithful). Below it: the request table never stores a request with RESPONDED set, every verdict removes "
  "its request, handlers touch only the request they were given (invariant by induction over every input line). The Spec (a tracker over "
  "observable history only) is evaluated by the Lean-compiled judge on the real daemon's output for seeded multi-client histories with id "
  "reuse, and model and code are compared line by line.", "Lean 4 proof that every model history satisfies the C01 reader (simulation) + the same reader and the trace judge on implementation traces + model/implementation correspondence"),
 "C02": ("proto", True,
  "Lean theorems on the gate of the model (a client is accepted only with holds = 0, required flags present, and soft holds zero or an expired "
  "timeout) plus the observable-history Spec (data delivered, no unanswered query unless timed out, +! needs a vouched stamp, never after a refusal) "
  "judged on the real daemon for every order of events, service subset and timeout point the generator draws; timeout schedule points are driven "
  "through libevent's own callback.", "Lean 4 proofs about the acceptance gate + Spec judge on implementation traces + correspondence"),
 "C03": ("proto", True,
  "Lean theorem C03_history: after every history of chunks and timer expiries no request still in the model's table satisfies the acceptance condition "
  "(no unmet +!, data complete or hurry-up, no unanswered query or an expired timeout) - a ready client was decided in the step that made it ready. "
  "The Spec 'nobody who is ready is still waiting after a step' is decided on the real daemon's traces by the Lean judge (weight on replies after "
  "timeout, duplicate OKs, challenge replies, repeated passwords); Lean theorems show every state-changing handler of the model ends in the gate and "
  "that an expired timeout permanently disables soft holds.", "Lean 4 proof that no reachable state holds a ready request + Spec judge on implementation traces + correspondence"),
 "C04": ("proto", True,
  "Lean theorems: a reply whose tag does not validate, or whose service is not awaited by that instance, leaves the model state unchanged and emits "
  "nothing (C04_stray_line), so the list of input lines with such a line inserted at any position is processed exactly like the list without it "
  "(C04_history_insert); a service slot somebody waits for is never recycled in any history (C04_slots_alive); the tag reader never wraps modulo 2^32, and the tag written for an instance reads back as exactly that (id, serial) "
  "(C04_tag_readback, C04_tag_injective). On the implementation: histories are run with and without stray replies "
  "(stale serial after id reuse, malformed, wrapped, unknown / not-awaited service) inserted at random positions and must agree byte for byte.",
  "Lean 4 proof of stray-reply inertness + differential runs of the implementation with/without the stray line"),
 "C05": ("proto", True,
  "Spec judge (Lean) on implementation traces: refusal text relayed exactly, R iff a login-capable awaited service vouched a non-blank stamp (the "
  "most recent one), +x iff asked, challenge/retry texts verbatim and only to that client; model vs code compared byte-exact on k/D/R/C/M lines; "
  "Lean lemmas on the reply dispatcher of the model.", "Spec judge on implementation traces + correspondence + Lean lemmas on reply dispatch"),
 "C06": ("proto", True,
  "Lean theorems characterise when the model sends a query (query_iff: configured, not yet sent or password event, credentials for login types, "
  "prerequisite flags present) and its payload truncations; the X lines of the real daemon are compared byte-exact with the model for all arrival "
  "orders and limit/over-length field contents the generator draws.", "Lean 4 characterisation of query eligibility/payload + byte-exact correspondence on X lines"),
 "C07": ("proto", True,
  "Lean theorem C07_history (and C07_history_started_total from the daemon as started on any configuration): for every list of client events "
  "(lines of clients, replies routed to a client's live instance, timer expiries) and every client, the run of the whole list and the run of "
  "that client's events alone write, event by event, the same lines about the client - byte for byte, except that a query carries the routing "
  "tag of its own run (same id, that run's serial) - and every other event writes only global notices and lines rendered for another client's "
  "request; proved by a relation between the two runs that every handler preserves (tables compared up to their counters). On the "
  "implementation every generated interleaving is compared with each client's stream run alone, per client, up to the serial in routing tags.",
  "Lean 4 history-level non-interference theorem (simulation between the whole run and the run of one client) + differential runs (interleaved vs alone) of the implementation"),
 "C08": ("proto", True,
  "Lean theorems: under the table invariant no Fault (NULL dereference, failed assertion, re-entrant accept) is reachable for any input line "
  "(stepLine_total), and line framing is independent of chunking (splitLines_append). Runtime facet (crash / hang / foreign memory / clean exit) is "
  "explored, not proved: malformed streams, every-which-way re-chunking, prefixes and junk-mixing on the real code under ASan/UBSan with a watchdog.",
  "Lean 4 totality + chunking proofs; sanitizer-backed exploration for the memory-safety facet (labelled runtime)"),
 "C09": ("proto", True,
  "Lean theorem C09_wellformed: from the boot state, for every history of input chunks, timer expiries, statistics requests and reloads with "
  "bareword names, every line the model writes satisfies the output grammar (Hist.wellFormed: no CR/LF/NUL, at most 1023 bytes, known letter, the "
  "fields that letter needs, decimal id and port, a routing tag that reads back); C09_tag_roundtrip for all 32-bit ids and serials. "
  "The same Lean predicate then judges the real daemon's bytes: every line parses, client lines carry a live id, the announced "
  "port mod 2^16 and an address text that the RFC 4291 reference parser maps to the canonical form of the announced address; banner first; nothing "
  "on the channel from reloads or bad info requests at verbosity 0.", "Lean 4 proof that every model output line is well-formed, for every history + the same predicate as Spec judge on implementation traces + correspondence"),
 "C10": ("proto", True,
  "Lean theorem C10_history: after every history of chunks and timer expiries the count of live instances kept by the reader of both channels equals the "
  "size of the request table, which is the figure the statistics line prints; the table size changes only by announcement (+1 or replace) and by disconnect/registered/verdict (-1). On the real code the "
  "'in use' figure of every statistics reply is compared with the Spec's live count, end of input must exit cleanly with zero live timer events "
  "(event_new/event_free are wrapped).", "Lean 4 proof that the reader's live count is the table size for every history + Spec judge on statistics replies + timer accounting in the harness"),
 "C11": ("proto", True,
  "Lean theorem: the model's rule scan assigns exactly the class of the first rule (in the compiled, name-sorted order) whose criteria all hold, "
  "none if none matches (classRules_first_match), with fnmatch as the modelled glob subset; after any session of input histories and reloads the rules "
  "in force are those of the last file loaded, in strict case-insensitive name order (C11_session_first_match, C11_rules_in_name_order); D/R class fields and U lines of the real daemon are "
  "compared with the model over random rule tables and clients; the address criterion rests on C13's mask theorem.",
  "Lean 4 first-match theorem + correspondence on class fields"),
 "C12": ("addr", True,
  "Lean theorems on the character-level model of irc_ntop/irc_pton (no leading colon, length bound, printer shape, round trip through the reference "
  "grammar and through the model's own parser as far as proved - see evidence for the exact list) + exhaustive zero/digit-pattern enumeration and "
  "random addresses through the real irc_ntop, irc_pton and libc inet_pton.", "Lean 4 proofs on printer/parser models + exhaustive pattern correspondence incl. libc"),
 "C13": ("addr", True,
  "Lean theorem mask_spec (irc_check_mask true iff the top min(n,128) bits agree, all a, m, n), pton_safe (no out-of-bounds access for any input), "
  "C13_netmask: every documented netmask text form yields the documented network and length for all its instances (*, a.b.c.d/n, a.*, a.b.*, a.b.c.*, x:y:* with 1-7 groups, "
  "<printed address>/n for every address and n<=128), every printed address read back as its own /128 (C13_plain_is_128); all short strings over the address alphabet and grammar-derived/mutated texts through the real parser under ASan, "
  "agreement with inet_pton where both accept.", "Lean 4 proofs (mask_spec, pton_safe, CIDR lemmas) + exhaustive short-string correspondence incl. libc"),
 "C14": ("conf", True,
  "Lean 4 theorems for every byte sequence and every prior state: the model of conf_read's parser terminates within a fuel bound derived from the "
  "input (parse_fuel_suffices), commits none of the memory errors the model can express (cursor in range at every un-read and dereference, no NULL "
  "passed on, the sizing and decoding passes of the string reader agree), ends in success or one of the five PARSE_* codes, and a failed load "
  "returns the state, heap and hook log unchanged (failed_load_inert). The real config.c is run under ASan/UBSan on truncations and bit flips of "
  "valid files and on grammar-mutated junk on top of random prior loads, compared with the model on return code, tree dump and hook log.",
  "Lean 4 totality/no-fault/atomicity proofs on the parser model + model/implementation correspondence under sanitizers"),
 "C15": ("conf", True,
  "Lean 4 theorems for every history of loads and registrations: no merge or registration commits a double free or use-after-free in the ownership "
  "model (merge_no_fault, history_no_fault), after a successful load every node the file mentions carries the file's value and every other node is "
  "registered and at its default (load_settles / C15_canonical), a second load of the same content changes nothing and logs no hook "
  "(load_idempotent), and a setting's hook runs iff one is installed and its effective value changed (str/list/pair_hook_iff); an object whose hook "
  "is not due keeps its children's keys as spelled (walk_unmodified_keys: an entry respelled in place counts as a change). The converse for object "
  "hooks and list-level preservation by late registration are judged on traces, not proved (see evidence). Differential runs of the "
  "real code over random sequences of files, registrations at every point and all four node kinds, tree dump + hook log compared with the model.",
  "Lean 4 invariant/idempotence/hook proofs on the merge model + Spec judge on implementation traces + correspondence"),
 "C16": ("conf", True,
  "Lean 4 round-trip theorem: for every document tree with NUL-free strings and every layout of it (quoting and escape choice per byte, bare or "
  "quoted, parenthesised or comma lists, ';' or newline or no terminator before '}' and at end of input, C/C++ comments and blanks in every gap, "
  "repeated keys) the model of the parser reads Spec.render back as the canonical tree (C16 / C16_full); typed settings deliver exactly the "
  "specified value and an unparsable text leaves the cached value in force (typed_spec, typed_reject). Rendered documents and typed texts are run "
  "through the real config.c and compared with the model and with the Spec tree.",
  "Lean 4 render/parse round-trip and typed-value proofs + Spec judge + correspondence on rendered documents"),
 "C17": ("proto", True,
  "On the implementation: for pairs (old, new) of service/rule tables (adds, removals, in-place edits, respellings) the daemon reloaded from old to "
  "new is compared with a daemon started on new, on probe clients, up to serials/statistics/slot order (also through the real SIGUSR1 path). Lean "
  "theorems on the model, which follows the hook runs of conf_replace_value's merge one by one (rescanWalk): the last section iauth_xquery is shown "
  "has the new file's string entries and it is shown nothing only when nothing it looks at changed (C17_last_rescan, C17_no_rescan); with no "
  "reference outstanding, after any number of reloads from a fresh start - of any files whose names are C strings - the service table names exactly "
  "the services of the last file with their protocols, as a fresh start does (C17_reloads, C17_reloads_fresh, C17_services_loads); after any session "
  "of input histories, timer expiries and reloads the rule table is the compilation of the last file's class section up to hit counters "
  "(C17_rules_session). That behaviour depends on the service table only up to slot order is not proved. Finding F33 (a name respelled in place "
  "kept its old spelling) was repaired in /repo and its witness runs on every check.",
  "differential runs (reload vs fresh start) of the implementation + Lean theorems characterising the tables after a reload"),
 "C18": ("logeng", True,
  "Lean 4 theorems on the model of src/log.c: after any reachable history of (re)loads the destinations a message of facility f and severity s "
  "reaches are exactly those the current logs section routes (f, s) to, as a multiset, independent of earlier sections (C18, C18_history, "
  "C18_multiset; C18_reload states it for every reachable live state of the config+log model, whatever hooks fired during the merge), and every "
  "record written is the specification's line for that facility, severity and text and goes to a routed destination (C18_lines). The same judge also runs on the real program "
  "(main.c's SIGUSR1 reload handler, module.c) with messages injected by a loadable module, over reload histories that include refused files. The real log.c is loaded with generated sections (ranges, comma lists, '*', case variants, file: and std: destinations) and its "
  "output files are compared with the model; file-system effects are the runtime facet.",
  "Lean 4 proofs on the log routing model + Spec judge + correspondence on written files"),
 "C19": ("set", True,
  "Lean 4 theorems (kernel-checked, unbounded): the splay-tree + thread model of src/set.c refines a sorted map for every operation sequence and every "
  "comparator satisfying the order laws, with exactly-once disposal; in every reachable state a lookup returns exactly the one member equal to the key, an inserted element is what the next lookup finds and a removed key is gone (C19_map_laws); the stock comparators are proved lawful. Differential correspondence (random "
  "sequences with all four comparators, extreme ints, every reachable tree shape over a small key universe x next op) under ASan/UBSan; the sorted-map "
  "spec is also evaluated directly on the C code's outputs.", "Lean 4 refinement proof + model/implementation correspondence check"),
 "C20": ("module", True,
  "Lean 4 theorems for every dependency graph of any size: on acyclic loadable graphs each module is constructed once, after its dependencies finished, "
  "post-initialised once after them, destroyed before them; a reachable cycle or unloadable module aborts with no partial post-init; with modules that lack the optional post-init "
  "hook the same holds with the post-init order read transitively through them (C20_judge_hookless). The real module.c "
  "is driven with stub shared objects (with and without the hook) over all small digraphs x listing orders and random larger ones.", "Lean 4 proofs over all graphs + correspondence with stub .so modules"),
}

REASON_PENDING = ("engine under construction in this round; the Lean-proof technique applies (see DESIGN.md section 6) and the check is registered as "
                  "soon as its model, correspondence and theorems exist")


def main(claim):
    checks, na = [], []
    for pid in sorted(P):
        eng, _c, text, tech = P[pid]
        if pid in claim:
            checks.append({
                "property_id": pid,
                "quick_cmd": "python3 check.py %s --tier quick" % pid,
                "thorough_cmd": "python3 check.py %s --tier thorough" % pid,
                "evidence_file": "/verif/evidence/%s.json" % pid,
                "replay_cmd_template": "python3 check.py %s --replay {path}" % pid,
                "engine": eng,
                "level_claimed": {"category": "proof", "text": text, "design_ref": "DESIGN.md section 6, %s" % pid},
                "level_note": NOTE,
                "technique": tech,
            })
        else:
            na.append({"property_id": pid, "reason": REASON_PENDING})
    man = {
        "version": 1,
        "setup_cmd": "python3 check.py --setup",
        "hooks": {
            "guard": "IAUTHD_C_VERIF",
            "enable": "every harness is compiled by the check from /repo's working tree with -DIAUTHD_C_VERIF; no source line in /repo uses the guard (no hooks were needed: the timeout schedule point is reached by activating the request timer found through the wrapped libevent calls event_new / event_base_once)",
            "baseline_off_cmd": "make -C /repo check",
            "source_commits": [],
            "add_only": True,
        },
        "engines": [
            {"name": "set", "path": "lean/Iauthd/Set, harness/h_set.c, vlib/eng_set.py", "serves_properties": ["C19"], "kind_free_text": "Lean model + refinement proof + differential harness"},
            {"name": "addr", "path": "lean/Iauthd/Addr, harness/h_addr.c, vlib/eng_addr.py", "serves_properties": ["C12", "C13"], "kind_free_text": "Lean character-level model + proofs + differential harness incl. libc"},
            {"name": "conf", "path": "lean/Iauthd/Conf, harness/h_conf.c, vlib/eng_conf.py", "serves_properties": ["C14", "C15", "C16"], "kind_free_text": "Lean parser/merge model + proofs + differential harness"},
            {"name": "logeng", "path": "lean/Iauthd/Log, harness/h_log.c, vlib/eng_logeng.py", "serves_properties": ["C18"], "kind_free_text": "Lean routing model + proofs + differential harness"},
            {"name": "module", "path": "lean/Iauthd/Module, harness/h_module.c, harness/stub_module.c, vlib/eng_module.py", "serves_properties": ["C20"], "kind_free_text": "Lean graph model + proofs + stub-module harness"},
            {"name": "proto", "path": "lean/Iauthd/Proto, harness/h_proto.c, vlib/eng_proto.py", "serves_properties": ["C01", "C02", "C03", "C04", "C05", "C06", "C07", "C08", "C09", "C10", "C11", "C17"], "kind_free_text": "Lean model of the line protocol + Spec tracker/judge + in-process harness driving libevent"},
        ],
        "checks": checks,
        "not_applicable": na,
        "notes": "All checks share check.py (decision protocol: DESIGN.md section 4).",
    }
    json.dump(man, open(os.path.join(HERE, "MANIFEST.json"), "w"), indent=1)
    print("claimed:", " ".join(sorted(claim)))


if __name__ == "__main__":
    # no argument = every property is claimed (the state since all six engines are registered)
    main(set(sys.argv[1:]) or set(P))
