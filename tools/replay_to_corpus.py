#!/usr/bin/env python3
"""usage: replay_to_corpus.py <replay.json> <corpus/dir/file.ops> <case-name> [comment]  — append the replay's case"""
import json, sys, os
d = json.load(open(sys.argv[1]))
os.makedirs(os.path.dirname(sys.argv[2]), exist_ok=True)
with open(sys.argv[2], "a") as f:
    if len(sys.argv) > 4:
        f.write("# %s\n" % sys.argv[4])
    f.write("case %s\n" % sys.argv[3])
    for l in d["case"][1:]:
        f.write(l + "\n")
print("appended", sys.argv[3], "to", sys.argv[2])
