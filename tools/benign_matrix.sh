#!/bin/sh
# usage: [SEEDS="1 2"] tools/benign_matrix.sh [dirs…] - every behaviour-preserving change in benign/ against every quick check
cd "$(dirname "$0")/.."
for d in ${*:-benign/*}; do
  for s in ${SEEDS:-1}; do
    n=$(tools/try_benign.sh "$PWD/$d" $s 2>&1 | grep -cE "^(VIOLATION|PATCH)")
    echo "$(basename $d) seed $s: $n alarm(s)"
  done
done
