#!/bin/sh
# usage: tools/seed_matrix.sh [seed dirs…]  — every seeded change against its own property's quick check
cd "$(dirname "$0")/.."
for d in ${*:-seeded/C*}; do
  p=$(basename $d | cut -d- -f1)
  r=$(tools/try_seed.sh "$PWD/$d" $p 2>&1 | grep -E "^(OK|VIOLATION|PATCH)" | head -1)
  k=$(tools/try_seed.sh "$PWD/$d" $p 2>/dev/null | grep "kind=" | head -1 | cut -c1-150)
  echo "$(basename $d): $r"
done
