#!/bin/sh
# usage: [SEEDS="1 2 3"] tools/seed_matrix.sh [seed dirs…]
# every seeded change against its own property's quick check, once per seed; prints one line per
# change and seed, and a summary of the changes some seed did not report
cd "$(dirname "$0")/.."
miss=0
for d in ${*:-seeded/C*}; do
  p=$(basename $d | cut -d- -f1)
  out=$(tools/try_seed.sh "$PWD/$d" $p 2>&1 | grep -E "^(OK|VIOLATION|PATCH)")
  n=$(echo "$out" | grep -c "^VIOLATION")
  t=$(echo "$out" | grep -c .)
  echo "$(basename $d): $n/$t $(echo "$out" | grep -v '^VIOLATION' | head -1)"
  [ "$n" = "$t" ] || miss=$((miss+1))
done
echo "changes not reported at every seed: $miss"
