#!/bin/sh
# usage: tools/try_seed.sh <dir-with-patch.diff> <prop> [more props...]
# Applies the patch to a scratch copy of /repo (never to /repo itself), runs the named checks
# against it (VERIF_REPO), prints their verdict lines, removes the copy.
set -e
d=$1; shift
scratch=$(mktemp -d /var/tmp/seedtry.XXXXXX)
/verif/tools/scratch_repo.sh "$scratch/repo" >/dev/null
( cd "$scratch/repo" && patch -p1 -s < "$d/patch.diff" ) || { echo "PATCH DOES NOT APPLY"; rm -rf "$scratch"; exit 2; }
cd /verif
for p in "$@"; do
  for seed in ${SEEDS:-1}; do
    VERIF_REPO="$scratch/repo" python3 check.py "$p" --tier "${TIER:-quick}" --seed "$seed" 2>&1 | grep -E "^(OK|VIOLATION|KNOWN)|kind=" | head -4
  done
done
rm -rf "$scratch"
