#!/bin/sh
# usage: tools/run_all.sh [tier] [seed] [props...]  — run the registered checks, print one line each
cd "$(dirname "$0")/.."
tier=${1:-quick}; seed=${2:-1}; shift 2 2>/dev/null
props=${*:-$(python3 -c "import json;print(' '.join(c['property_id'] for c in json.load(open('MANIFEST.json'))['checks']))")}
rc=0
for p in $props; do
  out=$(python3 check.py $p --tier $tier --seed $seed 2>&1) || rc=1
  echo "$out" | grep -E "^(OK|VIOLATION|KNOWN-FINDING)" | head -3
done
exit $rc
