#!/bin/sh
# usage: tools/scratch_repo.sh <dir>   — copy /repo's working tree (no .git, no build output) to <dir>
set -e
mkdir -p "$1"
rsync -a --delete --exclude .git --exclude '*.o' --exclude '*.lo' --exclude '*.la' --exclude .libs --exclude .deps \
      --exclude autom4te.cache --exclude 'src/iauthd-c' /repo/ "$1"/
echo "scratch copy of /repo in $1 (use VERIF_REPO=$1 python3 check.py Cnn); remove it when done"
