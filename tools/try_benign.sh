#!/bin/sh
# usage: tools/try_benign.sh <dir-with-patch.diff> [seed]
# Applies a behaviour-preserving change to a scratch copy of /repo and runs every quick check
# against it.  Any line that is not OK is an alarm on code where the properties hold.
d=$1; seed=${2:-1}
scratch=$(mktemp -d /var/tmp/benigntry.XXXXXX)
/verif/tools/scratch_repo.sh "$scratch/repo" >/dev/null
( cd "$scratch/repo" && patch -p1 -s < "$d/patch.diff" ) || { echo "PATCH DOES NOT APPLY"; rm -rf "$scratch"; exit 2; }
cd /verif
VERIF_REPO="$scratch/repo" tools/run_all.sh quick "$seed" 2>&1 | grep -v "^OK" 
echo "alarms above (none if empty) for $(basename $d) at seed $seed"
rm -rf "$scratch"
