#!/bin/sh
# usage: tools/seed2.sh <Cnn> <demo file name> [props to run…]   (batch 2: /tmp/seed2/Cnn, /tmp/seed2/out_Cnn)
id=$1; demo=$2; shift 2
out=/tmp/seed2/out_$id
case "$demo" in *.py) run="python3 $out/$demo";; *) run="sh $out/$demo";; esac
/verif/tools/confirm_seed.sh /tmp/seed2/$id $out $run | tail -4
d=/verif/seeded/$id-2; mkdir -p $d
for f in $out/*; do case "$f" in *.log|*/__pycache__) ;; *) [ -f "$f" ] && cp "$f" $d/;; esac; done
TIER=${TIER:-quick} /verif/tools/try_seed.sh $d ${*:-$id}
