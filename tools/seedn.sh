#!/bin/sh
# usage: B=<batch> tools/seedn.sh <Cnn> <demo file name> [props to run…]   (batch 2: /tmp/seed${B}/Cnn, /tmp/seed${B}/out_Cnn)
B=${B:-3}
id=$1; demo=$2; shift 2
out=/tmp/seed${B}/out_$id
case "$demo" in *.py) run="python3 $out/$demo";; *) run="sh $out/$demo";; esac
/verif/tools/confirm_seed.sh /tmp/seed${B}/$id $out $run | tail -4
d=/verif/seeded/$id-${B}; mkdir -p $d
for f in $out/*; do case "$f" in *.log|*/__pycache__) ;; *) [ -f "$f" ] && cp "$f" $d/;; esac; done
TIER=${TIER:-quick} /verif/tools/try_seed.sh $d ${*:-$id}
