#!/usr/bin/env python3
"""Which lines of /repo's sources do the generated cases reach?
usage: tools/coverage.py [seed] [tier] [props…]
For every engine: builds its harness with --coverage (VERIF_COVERAGE=1, no sanitizers), runs the
generated cases of its properties through it and prints per-file line coverage and the lines never
reached.  A diagnostic for generator gaps, not a check (nothing is judged)."""
import os, sys, subprocess, tempfile, shutil, re, glob, importlib
HERE = os.path.join(os.path.dirname(os.path.abspath(__file__)), "..")
sys.path.insert(0, HERE)
os.environ["VERIF_COVERAGE"] = "1"
from vlib import core
import check

SHOW = {"iauth_core.c", "iauth_xquery.c", "iauth_class.c", "iauth_misc.c", "set.c", "bitset.c", "config.c", "log.c", "module.c", "common.c"}

def main():
    seed = int(sys.argv[1]) if len(sys.argv) > 1 else 1
    tier = sys.argv[2] if len(sys.argv) > 2 else "quick"
    props = sys.argv[3:] or sorted(check.PROP_ENGINE)
    by_engine = {}
    for p in props:
        by_engine.setdefault(check.PROP_ENGINE[p], []).append(p)
    for ename, plist in by_engine.items():
        eng = importlib.import_module("vlib.eng_" + ename)
        wd = tempfile.mkdtemp(prefix="iauthd_cov_", dir="/var/tmp")
        try:
            total = 0
            for prop in plist:
                harness, log = eng.build_harness(wd, prop)
                if not harness:
                    print(ename, prop, "harness does not build with --coverage:", log[-500:]); continue
                cases = eng.gen_cases(prop, tier, seed)
                core.run_cases(eng.harness_cmd(harness, prop), cases)
                total += len(cases)
            print("== engine %s: %d cases of %s" % (ename, total, " ".join(plist)))
            for g in sorted(glob.glob(os.path.join(wd, "**", "*.gcda"), recursive=True)):
                subprocess.run(["gcov", "-o", os.path.dirname(g), g], cwd=wd, stdout=subprocess.DEVNULL, stderr=subprocess.DEVNULL)
            for f in sorted(glob.glob(os.path.join(wd, "*.gcov"))):
                name = os.path.basename(f)[:-5]
                if name not in SHOW:
                    continue
                cov = unc = 0
                missing = []
                for line in open(f, errors="replace"):
                    m = re.match(r"\s*([^:]+):\s*(\d+):(.*)", line)
                    if not m: continue
                    cnt, ln, txt = m.group(1).strip(), int(m.group(2)), m.group(3)
                    if cnt == "-": continue
                    if cnt in ("#####", "====="):
                        unc += 1; missing.append((ln, txt.strip()[:100]))
                    else:
                        cov += 1
                if cov == 0:
                    continue
                print("  %-16s %4d/%4d lines reached" % (name, cov, cov + unc))
                if unc <= 250:
                    for ln, txt in missing:
                        print("        %5d: %s" % (ln, txt))
        finally:
            shutil.rmtree(wd, ignore_errors=True)
    return 0

if __name__ == "__main__":
    sys.exit(main())
