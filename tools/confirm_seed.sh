#!/bin/sh
# usage: tools/confirm_seed.sh <worktree> <outdir> <demo command…>
# Confirms a seeded change in its own scratch worktree: demo passes on the clean tree, the patch
# applies, builds without warnings, `make check` passes, demo fails with the patch.  Restores the worktree.
WT=$1; OUT=$2; shift 2
cd "$WT" || exit 2
git checkout -q -- . ; git status --short | grep -v '^??' && { echo "worktree not clean"; exit 2; }
make -j8 >/dev/null 2>&1 || { echo "clean build failed"; exit 2; }
( WT="$WT" "$@" "$WT" ) >/tmp/confirm_clean.$$ 2>&1; rc_clean=$?
echo "demo on clean tree: exit $rc_clean"
git apply "$OUT/patch.diff" || { echo "patch does not apply"; exit 2; }
make -j8 2>&1 | grep -iE "warning|error" | grep -v "obsolete" | head -5
make check 2>&1 | grep -E "^# (TOTAL|PASS|FAIL|ERROR)" | tr '\n' ' '; echo
( WT="$WT" "$@" "$WT" ) >/tmp/confirm_patched.$$ 2>&1; rc_p=$?
echo "demo on patched tree: exit $rc_p"; tail -5 /tmp/confirm_patched.$$
git checkout -q -- . ; make -j8 >/dev/null 2>&1
rm -f /tmp/confirm_clean.$$ /tmp/confirm_patched.$$
[ $rc_clean -eq 0 ] && [ $rc_p -ne 0 ] && echo "CONFIRMED" || echo "NOT CONFIRMED"
