"""Engine `Log`: src/log.c driven through the `logs` object of src/config.c
<->  lean/Iauthd/Log  (property C18; the console clause of C09 can reuse harness and model)."""
import os
import re
from . import core
from .core import Case

NAME = "logeng"
DRIVER = "drv_log"

SEVS = ["debug", "command", "info", "warning", "error", "fatal"]


def build_harness(wd, prop):
    r = core.repo()
    srcs = [os.path.join(core.HARNESS_DIR, "h_log.c"),
            # LOG_FATAL ends in _exit(1): hand it to the harness so that the files stay observable
            (os.path.join(r, "src/log.c"), ["-D_exit=h_log_exit"])]
    srcs += [os.path.join(r, "src", f) for f in ("config.c", "set.c", "common.c", "bitset.c")]
    return core.compile_c(wd, "h_log", srcs, libs=["-levent"])


def harness_cmd(path, prop):
    return [path, "--tmp=" + os.path.dirname(path)]


def build_e2e(wd):
    """the real program with the injection module harness/verif_logmod.c (same sanitizers)"""
    import subprocess
    r = core.repo()
    out = os.path.join(wd, "e2e")
    os.makedirs(os.path.join(out, "mods"), exist_ok=True)
    os.makedirs(os.path.join(wd, "e2e_run"), exist_ok=True)
    defs = ['-DSYSCONFDIR="/nonexistent"', '-DMODULESDIR="%s/mods"' % out, '-DLOGDIR="%s"' % os.path.join(wd, "e2e_run")]
    srcs = [os.path.join(r, "src", f) for f in sorted(os.listdir(os.path.join(r, "src"))) if f.endswith(".c")]
    path, log = core.compile_c(out, "iauthd-c", srcs, extra=defs, libs=["-levent", "-ldl", "-lm", "-rdynamic"])
    if not path:
        return None, log
    flags = core.BASE_CFLAGS + core.SAN_FLAGS + core.include_flags(wd) + ["-fPIC", "-shared"]
    cmd = ["gcc"] + flags + [os.path.join(core.HARNESS_DIR, "verif_logmod.c"), "-o", os.path.join(out, "mods", "verif_logmod.so")]
    p = subprocess.run(cmd, stdout=subprocess.PIPE, stderr=subprocess.STDOUT, text=True)
    if p.returncode != 0:
        return None, " ".join(cmd) + "\n" + p.stdout[-3000:]
    return out, ""


def e2e_cases(prop, tier, seed):
    """reload histories for the real daemon: a first file, then messages, reloads (valid sections and
    files the parser refuses) and looks at the files.  The first file is always accepted (a daemon
    that refuses its first file does not start)."""
    rng = core.rng_for(seed, "log-e2e")
    n = 10 if tier == "quick" else 150
    cases = []
    counter = [0]
    for i in range(n):
        files = rng.sample(["a.log", "b.log", "c.log", "A.log"], rng.choice([2, 3]))
        nonempty = lambda sc: sc if sc else [("*.*", "str", ["file:" + files[0]])]
        sec = nonempty(gen_section(rng, files, max_entries=4))
        ops = ["read " + _hex(render_body(sec))]
        for _ in range(rng.choice([2, 3, 4])):
            ops += messages(counter, facs=rng.sample(FACS, 2), sevs=rng.sample(range(5), 2))
            r = rng.random()
            if r < 0.3:
                # a file the parser refuses: nothing may change, and the next good reload must take effect
                # (seeded change C18-12x3 left a rescan hold behind after a refused reload)
                ops.append("read " + _hex(render_body(sec, trailer="logs { \"x.*\" ( a, ;\n")))
                ops += messages(counter, facs=rng.sample(FACS, 2), sevs=rng.sample(range(5), 2))
            sec = nonempty(mutate_section(rng, sec, files, 0.0) if rng.random() < 0.7 else gen_section(rng, files, max_entries=4))
            ops.append("read " + _hex(render_body(sec)))
        ops += messages(counter, facs=FACS[:3], sevs=[0, 2, 3])
        ops.append("files")
        cases.append(core.Case("e2elog/%d" % i, ops, tags={"e2e": True}))
    return cases


def _e2e_proj(i, rec):
    """model vs real program: what the injected messages did to the files (the real program writes
    more chatter of its own than the in-process harness: start-up, signals, module loading)"""
    if not rec.startswith("files"):
        return rec.split(" ")[0] if rec.split(" ")[0] in ("dead", "exit", "fault") else "-"
    got = parse_files(rec) or {}
    out = []
    for n in sorted(got):
        lines, pb = _norm_lines(got[n], True, _E2E_TESTS.get("cur"))
        out.append((n, tuple(lines) if lines is not None else pb))
    return tuple(x for x in out if x[1])


_E2E_TESTS = {}


class _E2EProjector:
    def for_case(self, case):
        tests = set(_unhex(o.split(" ")[3]) for o in case.body() if o.startswith("msg ") and len(o.split(" ")) >= 4)

        def proj(i, rec):
            _E2E_TESTS["cur"] = tests
            return _e2e_proj(i, rec)
        return proj

    def __call__(self, i, rec):
        return _e2e_proj(i, rec)


def extra_runs(prop, tier, seed, wd):
    if prop != "C18":
        return []
    bindir, log = build_e2e(wd)
    if not bindir:
        return [{"name": "e2e (real program)", "error": "the real program does not build: " + log[-1500:]}]
    cmd = ["/bin/sh", "-c", "cd %s/e2e_run && exec python3 %s %s" % (wd, os.path.join(core.HARNESS_DIR, "e2e_log_driver.py"), bindir)]
    return [{"name": "e2e: real main.c (SIGUSR1 reload handler), module.c, log.c, config.c; messages injected by verif_logmod.so",
             "cmd": cmd, "cases": e2e_cases(prop, tier, seed), "projector": _E2EProjector(), "workers": 8}]


def model_args(prop):
    return ["model"]


def spec_args(prop):
    return ["spec"]


def header_len(case):
    return 1  # `case`


def projector(prop):
    return None  # model vs code: every record, byte for byte (incl. the rescan chatter and the console)


CON_RE = re.compile(rb"^((?:\[[^\]]*\] )?[^:\s]*: )(.*)$", re.S)


def case_projector(prop, case):
    """model vs code: every record; the *text* of a message the daemon writes on its own account
    (parse errors, 'Attaching ...') is wording no property speaks about, so such a line is compared
    by where it went and under which facility and severity, not by what it says.  The messages the
    case itself injects (`msg` ops) are compared byte for byte."""
    tests = set()
    for op in case.body():
        f = op.split(" ")
        if f[0] == "msg" and len(f) >= 4:
            tests.add(_unhex(f[3]))

    def neutral_file_line(b):
        m = LINE_RE.match(b)
        if m and m.group(3) not in tests:
            return b"(" + m.group(1) + b":" + m.group(2) + b") *own*"
        return b

    def neutral_con(data):
        out = []
        for l in data.split(b"\n"):
            m = CON_RE.match(l)
            out.append(m.group(1) + b"*own*" if (m and m.group(2) not in tests) else l)
        return b"\n".join(out)

    def proj(i, rec):
        if not isinstance(rec, str):
            return rec
        f = rec.split(" ")
        if f[0] == "files":
            files = parse_files(rec)
            if files is None:
                return rec
            return ("files", tuple(sorted((n, tuple((mk, neutral_file_line(b)) for mk, b in ls)) for n, ls in files.items())))
        return tuple(("con", neutral_con(_unhex(x[4:]))) if x.startswith("con=") else x for x in f)
    return proj


def spec_name(prop):
    return "Iauthd.Log.Spec.routes / onLoad / onMessage (reading of C18 over file contents)"


def correspondence_name(prop):
    return "correspondence Log: src/log.c + src/config.c vs Iauthd.Log.load/message on all records"


def theorems(prop):
    return [
        # A. case-insensitive equality of the model = strcasecmp on C strings
        "Iauthd.Log.ciEq_eq_strcasecmp",
        # B. log_parse_type_sevset against the specification's grammar
        "Iauthd.Log.applyOp_spec",
        "Iauthd.Log.sevset_spec",
        "Iauthd.Log.parseKey_spec",
        # C. log_rescan_conf
        "Iauthd.Log.wf_rescan",
        "Iauthd.Log.refcnt_spec",
        "Iauthd.Log.open_iff_referenced",
        "Iauthd.Log.open_exact",
        "Iauthd.Log.C18_route",
        "Iauthd.Log.dests_exact",
        "Iauthd.Log.rescan_history_free",
        # the snapshot-647fb5c comparator (strcasecmp on destination names), kept for the record
        "Iauthd.Log.alias_same_section_witness",
        "Iauthd.Log.alias_history_witness",
        # D. the effectful walk; F25
        "Iauthd.Log.rescanR_state",
        "Iauthd.Log.rescanR_alive_of_openable",
        # E. lines, console
        "Iauthd.Log.line_complete",
        "Iauthd.Log.console_silent",
        # hook delivery (conf_replace_value on `logs`)
        "Iauthd.Log.load_routing",
        "Iauthd.Log.sound_of_reach",
        "Iauthd.Log.load_alive",
        "Iauthd.Log.alive_of_reachOK",
        # from the file to the tree
        "Iauthd.Log.keyDenotes_congr",
        "Iauthd.Log.walk_live",
        "Iauthd.Log.scratch_routes",
        "Iauthd.Log.reachS_routes",
        # headline statements
        "Iauthd.Properties.C18",
        "Iauthd.Properties.C18_reload",
        "Iauthd.Properties.C18_reload_F25",
        "Iauthd.Properties.C18_history",
        "Iauthd.Properties.C18_multiset",
        "Iauthd.Properties.C18_lines",
    ]


def lean_imports(prop):
    return ["Iauthd.Properties.C18"]


def lean_targets(prop):
    return lean_imports(prop) + [DRIVER]


def lean_modules(prop):
    return ["Iauthd.Log.Model", "Iauthd.Log.Spec", "Iauthd.Log.Proofs", "Iauthd.Log.ProofsLoad", "Iauthd.Log.ProofsFile",
            "Iauthd.Properties.C18"]


def checker_cmd(prop):
    return "cd lean && lake build Iauthd.Properties.C18 drv_log && lake env lean <(#print axioms …) ; thorough: lake env leanchecker <module>"


def trusted_base(prop):
    return ["Lean 4.33.0 kernel; axioms ⊆ {propext, Classical.choice, Quot.sound}",
            "Iauthd/Log/Model.lean is hand-written from src/log.c and the CONF_OBJECT / CONF_STRING / CONF_STRING_LIST arms of conf_replace_value; tied by the sampled correspondence only",
            "Iauthd/Log/Spec.lean is our reading of C18 (interpretation choices listed in its header and in `assumptions`)",
            "the small config parser of Drv/LogMain.lean (only the layout the generators emit; anything else is answered `unsupported`)",
            "harness/h_log.c (log.c compiled with -D_exit=h_log_exit: LOG_FATAL returns to the harness; timestamps stripped by pattern), vlib/eng_logeng.py judge (filters the rescan's own messages, compares facility names without case, ignores repeated copies), gcc + ASan/UBSan",
            "struct set is represented as an association list looked up with the comparator's equality: strcasecmp for log types and vtables, strcmp for log destinations (licensed by C19)"]


def assumptions(prop):
    return ["F25: every destination of a generated section is `file:<path>` with a path that fopen(…, \"a\") accepts; an unknown method or unopenable file is LOG_FATAL (exit 1) — shown by corpus case f25-*, not judged",
            "message text is at most 1023 bytes and has no newline (log_vmessage formats into a 1024-byte buffer; a newline would start an unattributed physical line)",
            "every log_type_register caller passes a NULL default target (true of the whole tree), so default targets are not modelled",
            "`written to d` = at least one copy reaches d: multiplicity is not part of C18 (an entry list naming a file twice, or an own entry plus a `*` entry, gives two copies; a message of facility `*` is always doubled)",
            "the line shows the facility in the spelling under which the type was first registered (possibly the spelling of a config key): attribution is compared without regard to case",
            "two entries of one file with the same key (up to case) and the same kind: the later replaces the earlier (configuration language, C14-C16)",
            "one trailing comma in a severity list is tolerated; the empty severity text is a valid empty list",
            "messages the rescan itself emits (`Attaching …`, `Releasing …`) are routed through the half-built table; C18's `current section` is ambiguous while a reload is in progress, so these lines are only required to be complete and attributed",
            "F14: on the pinned tree the first reload of identical content re-runs the rescan once per file-created string entry; the routing it computes is the same (theorems load_routing + rescan_history_free), only the rescan chatter is repeated"]


# ------------------------------------------------------------------ record parsing

def _unhex(h):
    if h == "=" or h == "":
        return b""
    try:
        return bytes.fromhex(h)
    except ValueError:
        return b"?" + h.encode()


def parse_files(rec):
    """`files name:l,l name:l` -> {name: [(marker, bytes)]} or None"""
    if not rec.startswith("files"):
        return None
    out = {}
    for part in rec.split(" ")[1:]:
        if not part:
            continue
        n, _, ls = part.partition(":")
        lines = []
        for l in (ls.split(",") if ls else []):
            m = ""
            while l[:1] and l[:1] in "!~":
                m += l[0]
                l = l[1:]
            lines.append((m, _unhex(l)))
        out[_unhex(n)] = lines
    return out


LINE_RE = re.compile(rb"^\(([^:()]*|\*):(debug|command|info|warning|error|fatal)\) (.*)$", re.S)
CHATTER = (b"Attaching ", b"Releasing unreferenced log destination ")
CONF_CHATTER = (b"Expected ", b"Premature ", b"Unable to parse ")


def is_chatter(fac, sev, text):
    f = fac.lower()
    if f == b"core" and sev == b"info" and text.startswith(CHATTER):
        return True
    if f == b"config" and sev in (b"error", b"warning") and text.startswith(CONF_CHATTER):
        return True
    return False


def _norm_lines(lines, drop_chatter, tests=None):
    """-> (list of (fac_lower, sev, text) without adjacent repeats, problem|None)"""
    out = []
    for marker, b in lines:
        if marker:
            return None, "line not complete / not attributed: %s%r" % (marker, b[:80])
        m = LINE_RE.match(b)
        if not m:
            return None, "line without (facility:severity) attribution: %r" % b[:80]
        fac, sev, text = m.group(1), m.group(2), m.group(3)
        if drop_chatter and (text not in tests if tests is not None else is_chatter(fac, sev, text)):
            continue
        item = (fac.lower(), sev, text)
        if out and out[-1] == item:
            continue
        out.append(item)
    return out, None


def judge(prop, case, ir, sr):
    """C18 on the implementation's file contents.  False = holds, (index, reason) = fails."""
    if sr is None:
        return False
    ops = case.body()
    # the messages the case injects; everything else in a file is the daemon's own chatter
    tests = set(_unhex(o.split(" ")[3]) for o in ops if o.startswith("msg ") and len(o.split(" ")) >= 4)
    for i, op in enumerate(ops):
        rec = ir[i] if i < len(ir) else None
        if rec is None:
            return (i, "implementation produced no record (died): %r" % (ir[-1] if ir else None))
        if rec.startswith("fault"):
            return (i, "implementation crashed: " + rec)
        if op.startswith("read ") and rec.startswith("exit"):
            return False        # F25: fatal exit inside a reload is outside C18's wording
        if rec.startswith("unsupported") or rec.startswith("harness-"):
            return False
        if op != "files":
            continue
        got = parse_files(rec)
        exp = parse_files(sr[i] if i < len(sr) else "")
        if got is None or exp is None:
            return (i, "unreadable files record %r / %r" % (rec[:80], (sr[i] if i < len(sr) else None)))
        names = sorted(set(got) | set(exp))
        for n in names:
            g, pb = _norm_lines(got.get(n, []), True, tests)
            if pb:
                return (i, "file %r: %s" % (n, pb))
            e, pb = _norm_lines(exp.get(n, []), False)
            if g != e:
                k = 0
                while k < len(g) and k < len(e) and g[k] == e[k]:
                    k += 1
                return (i, "file %r: written %r, C18 expects %r (first difference at test line %d of %d/%d)" % (
                    n, g[k] if k < len(g) else None, e[k] if k < len(e) else None, k, len(g), len(e)))
    return False


def _case_dest_names(case):
    names = set()
    for op in case.body():
        if op.startswith("read "):
            body = _unhex(op.split(" ", 1)[1])
            for m in re.finditer(rb'"([A-Za-z]+:[^"]*)"', body):
                names.add(m.group(1))
    return names


def classify(prop, f):
    names = _case_dest_names(f.case)
    low = {}
    for n in names:
        low.setdefault(n.lower(), set()).add(n)
    if any(len(v) > 1 for v in low.values()):
        return "log:destination-names-differing-only-in-case"
    op = f.case.lines[1 + f.idx] if f.idx is not None and 1 + f.idx < len(f.case.lines) else "?"
    return "log:" + op.split(" ")[0]


# ------------------------------------------------------------------ generators

FACS = ["core", "config", "alpha", "Beta", "*"]
FAC_SPELL = {"core": ["core", "core", "CORE", "Core"], "config": ["config", "Config"], "alpha": ["alpha", "ALPHA"],
             "Beta": ["Beta", "beta", "BETA"], "*": ["*"]}
FILES = ["a.log", "b.log", "c.log"]
FILES_ALIAS = ["a.log", "A.log", "b.log"]
OPS = ["", "", "=", ">", ">=", "<", "<="]
BAD_SEV = ["bogus", ">>info", "=>info", "*,debug", "info,,error", ",info", "info.x", ">", ">=", "<=", "inf",
           "info ", " info", "warn", "=", "==info", "debug,bogus", "bogus,debug", "*,*", "**", "info;", ">= info", ",", ",,"]
ODD_SEV = ["", "info,", ">=info,<warning", "debug,", "*"]
NODOT_KEYS = ["core", "coreinfo", "verbose_timestamp2", "star", "core,info"]


def _hex(b):
    if isinstance(b, str):
        b = b.encode("latin-1")
    return b.hex() if b else "="


def sev_name(rng):
    n = rng.choice(SEVS)
    r = rng.random()
    return n.upper() if r < 0.1 else (n.capitalize() if r < 0.2 else n)


def sev_item(rng):
    return rng.choice(OPS) + sev_name(rng)


def sev_text(rng, malformed=0.0):
    r = rng.random()
    if r < malformed:
        return rng.choice(BAD_SEV)
    if r < malformed + 0.08:
        return rng.choice(ODD_SEV)
    if rng.random() < 0.18:
        return "*"
    return ",".join(sev_item(rng) for _ in range(rng.choice([1, 1, 1, 2, 2, 3])))


def gen_key(rng, malformed=0.0):
    if rng.random() < malformed * 0.3:
        return rng.choice(NODOT_KEYS)
    fac = rng.choice(FACS)
    if rng.random() < malformed * 0.15:
        fac = rng.choice(["", "co re", "core.x", "gamma"])
    return rng.choice(FAC_SPELL.get(fac, [fac])) + "." + sev_text(rng, malformed)


def gen_value(rng, files):
    """-> (kind, [dest names])"""
    r = rng.random()
    if r < 0.6:
        return ("str", ["file:" + rng.choice(files)])
    n = rng.choice([0, 1, 2, 2, 3])
    return ("list", ["file:" + rng.choice(files) for _ in range(n)])


def gen_section(rng, files, max_entries=4, malformed=0.0):
    return [(gen_key(rng, malformed),) + gen_value(rng, files) for _ in range(rng.randint(0, max_entries))]


def render_body(section, extra=None, logs=True, trailer=""):
    """the safe layout: one entry per line, every entry and the block terminated by `;`"""
    out = []
    if logs:
        out.append("logs {")
        for key, kind, vals in section:
            if kind == "str":
                out.append(' "%s" "%s";' % (key, vals[0]))
            else:
                out.append(' "%s" (%s);' % (key, ", ".join('"%s"' % v for v in vals)))
        for e in (extra or []):
            out.append(" " + e)
        out.append("};")
    else:
        out.append("other { x y; };")
    return "\n".join(out) + "\n" + trailer


def mutate_section(rng, sec, files, malformed):
    sec = list(sec)
    r = rng.random()
    if r < 0.25 or not sec:
        return sec                                  # identical content (F14: per-child hooks of fresh strings)
    if r < 0.5:
        i = rng.randrange(len(sec))                 # change one value in place (per-child hook only)
        k, kind, vals = sec[i]
        kind2, vals2 = gen_value(rng, files)
        if rng.random() < 0.7:
            kind2 = kind
            vals2 = (vals2[:1] or ["file:" + rng.choice(files)]) if kind == "str" else vals2
        sec[i] = (k, kind2, vals2)
        return sec
    if r < 0.65:
        del sec[rng.randrange(len(sec))]            # removal (object hook)
        return sec
    if r < 0.8:
        sec.insert(rng.randint(0, len(sec)), (gen_key(rng, malformed),) + gen_value(rng, files))
        return sec
    return gen_section(rng, files, 4, malformed)


def messages(counter, facs=FACS, sevs=range(5)):
    ops = []
    for f in facs:
        for s in sevs:
            counter[0] += 1
            ops.append("msg %s %d %s" % (_hex(f), s, _hex("m%d" % counter[0])))
    return ops


def random_case(rng, name, files, malformed, stream):
    ops = []
    counter = [0]
    if rng.random() < 0.5:
        ops.append("verbosity %d" % rng.choice([0, 1, 2]))
    sec = gen_section(rng, files, 4, malformed)
    nloads = rng.choice([1, 2, 2, 3, 3])
    secs = 0
    for li in range(nloads):
        if li > 0:
            sec = mutate_section(rng, sec, files, malformed)
        r = rng.random()
        extra = []
        if rng.random() < 0.15:
            extra.append("verbose_timestamp %s;" % rng.choice(["false", "true", "off", "maybe", "yes"]))
        if r < 0.06 and li > 0:
            ops.append("read " + _hex(render_body(sec, extra, logs=False)))      # file without a logs object
            sec_now = []
        elif r < 0.12 and li > 0:
            ops.append("read " + _hex(render_body(sec, extra, trailer="!\n")))   # syntax error: old routing stays
            sec_now = None
        elif r < 0.15 and li > 0:
            ops.append("read " + _hex("logs {\n" + ' "core.*" "file:%s";\n' % rng.choice(files)))  # EOF inside block
            sec_now = None
        else:
            ops.append("read " + _hex(render_body(sec, extra)))
            sec_now = sec
        secs += 1
        if rng.random() < 0.15:
            ops.append("verbosity %d" % rng.choice([0, 1, 2]))
        ops += messages(counter)
        ops.append("files")
    # fatal severity last: the first one ends the process
    f = rng.choice(FACS)
    counter[0] += 1
    ops.append("msg %s 5 %s" % (_hex(f), _hex("m%d" % counter[0])))
    ops += messages(counter, facs=[rng.choice(FACS)], sevs=[rng.randrange(5)])
    ops.append("files")
    return Case(name, ops, tags={"stream": stream, "sections": secs})


# small universe for the exhaustive enumerator
ENUM_FACS = ["core", "CORE", "alpha", "Beta", "*"]
ENUM_SEVS = ["*", "info", ">=warning", ">info", "<=command", "<info", "=error", "debug,fatal", ">=info,<warning",
             "", "info,", "bogus", "info,,error", "*,debug"]
ENUM_VALS = [("str", ["file:a.log"]), ("str", ["file:b.log"]), ("list", ["file:a.log", "file:b.log"]),
             ("list", ["file:c.log", "file:c.log"]), ("list", [])]


def enum_entries():
    return [(f + "." + s, k, v) for f in ENUM_FACS for s in ENUM_SEVS for (k, v) in ENUM_VALS]


def enum_case(name, sec):
    counter = [0]
    ops = ["read " + _hex(render_body(sec))]
    ops += messages(counter, facs=["core", "alpha", "Beta", "*"], sevs=range(6 - 1))
    ops.append("files")
    ops.append("msg %s 5 %s" % (_hex("core"), _hex("mf")))
    ops.append("files")
    return Case(name, ops, tags={"stream": "enum", "sections": 1})


def gen_cases(prop, tier, seed):
    rng = core.rng_for(seed, "logeng")
    cases = []
    n_valid, n_malf, n_alias = (150, 60, 12) if tier == "quick" else (35000, 12000, 3000)
    for i in range(n_valid):
        cases.append(random_case(rng, "valid/%d" % i, FILES, 0.03, "valid"))
    for i in range(n_malf):
        cases.append(random_case(rng, "malformed/%d" % i, FILES, 0.45, "malformed"))
    for i in range(n_alias):
        cases.append(random_case(rng, "alias/%d" % i, FILES_ALIAS, 0.03, "alias"))
    ents = enum_entries()
    if tier == "quick":
        for i, e in enumerate(ents):
            cases.append(enum_case("enum1/%d" % i, [e]))
        rng2 = core.rng_for(seed, "logeng-enum2")
        for i in range(100):
            cases.append(enum_case("enum2s/%d" % i, [rng2.choice(ents), rng2.choice(ents)]))
    else:
        cases.append(enum_case("enum0", []))
        for i, e in enumerate(ents):
            cases.append(enum_case("enum1/%d" % i, [e]))
        k = 0
        for i, a in enumerate(ents):
            for b in ents[i:]:
                cases.append(enum_case("enum2/%d" % k, [a, b]))
                k += 1
    return cases


def search_cases(prop, finding, seed):
    """model and code disagree without a property failure: look harder around the same features"""
    rng = core.rng_for(seed, "logeng-search")
    names = _case_dest_names(finding.case)
    files = FILES_ALIAS if any(n != n.lower() for n in names) else FILES
    out = []
    for i in range(1500):
        out.append(random_case(rng, "search/%d" % i, files, rng.choice([0.03, 0.45]), "search"))
    return out


def coverage(prop, tier, cases, impl, model, spec):
    ops = {}
    streams = {}
    distinct = set()
    nontrivial = 0
    sections = 0
    test_lines = 0
    chatter_lines = 0
    exits = 0
    rc = {}
    for c, ir in zip(cases, impl):
        k = c.key()
        if k in distinct:
            continue
        distinct.add(k)
        streams[c.tags.get("stream", c.origin)] = streams.get(c.tags.get("stream", c.origin), 0) + 1
        sections += c.tags.get("sections", 0)
        for l in c.lines[1:]:
            w = l.split(" ", 1)[0]
            ops[w] = ops.get(w, 0) + 1
        wrote = False
        silent = False
        for op, r in zip(c.lines[1:], ir):
            if r.startswith("rc "):
                code = r.split(" ")[1]
                rc[code] = rc.get(code, 0) + 1
            if r.startswith("exit"):
                exits += 1
            if op == "files":
                fs = parse_files(r) or {}
                n_t = 0
                for lines in fs.values():
                    for m, b in lines:
                        mm = LINE_RE.match(b)
                        if mm and is_chatter(mm.group(1), mm.group(2), mm.group(3)):
                            chatter_lines += 1
                        else:
                            n_t += 1
                test_lines += n_t
                wrote = wrote or n_t > 0
                silent = silent or n_t < 20
        if wrote and silent:
            nontrivial += 1
    return {
        "evaluations": len(cases),
        "distinct_nontrivial": nontrivial,
        "rule": "op files over the universe facilities {core, config, alpha, Beta, *} (keys in mixed case), 3 files, severity texts from the "
                "operator grammar plus a malformed stream; sections of <=4 entries, <=3 loads per case (identical reloads, one-value edits, "
                "removals, additions, files without `logs`, syntax errors), 25 (facility, severity) messages after every load, one fatal "
                "message at the end; plus an enumerator over a 350-entry universe (quick: every 1-entry section + 100 sampled pairs; "
                "thorough: every section of <=2 entries). non-trivial = distinct case in which some test message reached a file and some did not",
        "samples": [c.lines[:6] for c in cases[:2]] + [c.lines[:4] for c in cases[-1:]],
        "op_histogram": ops, "streams": streams, "sections_loaded": sections,
        "conf_read_results": rc, "fatal_exits_observed": exits,
        "test_lines_read_back": test_lines, "rescan_chatter_lines_read_back": chatter_lines,
        "exhaustive": False,
        "traces_validated_against_impl": len(cases),
    }
