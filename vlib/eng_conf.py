"""Engine `Conf`: src/config.c  <->  lean/Iauthd/Conf  (properties C14, C15, C16).

Op syntax: see harness/h_conf.c.  `read` ops may carry `doc=<document>` (what the body
means, lean/Drv/ConfMain.lean `parseDoc`) and `lay=<tape>` (how it was written down);
bodies of such ops are produced by `drv_conf render` from exactly these two fields, so
that the text the C code reads is `Spec.render doc layout` of the Lean spec.
"""
import itertools
import os
import subprocess
from . import core
from .core import Case

NAME = "conf"
DRIVER = "drv_conf"


def build_harness(wd, prop):
    r = core.repo()
    return core.compile_c(wd, "h_conf", [os.path.join(core.HARNESS_DIR, "h_conf.c"),
                                          os.path.join(r, "src/config.c"), os.path.join(r, "src/set.c"),
                                          os.path.join(r, "src/common.c"), os.path.join(r, "src/bitset.c")])


def harness_cmd(path, prop):
    return [path]


def model_variant():
    """`fixed` mirrors the repaired config.c (what the theorems are about); VERIF_CONF_MODEL=pinned
    (or e.g. `pinned,+f9`) selects the pinned text defect by defect."""
    return os.environ.get("VERIF_CONF_MODEL", "fixed")


def model_args(prop):
    return ["model", model_variant()]


def spec_args(prop):
    return "trace"


def run_trace_judge(prop, cases, impl):
    """Spec evaluated on the implementation's observations: every op line is sent to
    `drv_conf judge Cnn` together with the record the C code printed for it."""
    derived = []
    for c, ir in zip(cases, impl):
        body = c.lines[1:]
        lines = []
        for i, op in enumerate(body):
            rec = ir[i] if i < len(ir) else "<missing>"
            lines.append(op + " => " + rec)
        derived.append(Case(c.name, lines))
    out, _errs = core.run_cases([core.drv_path(DRIVER), "judge", prop], derived)
    return out


def header_len(case):
    n = 1
    if len(case.lines) > 1 and case.lines[1].startswith("props "):
        n = 2
    return n


def _proj(i, rec):
    if rec.startswith("fault"):
        return "fault"
    return rec


def projector(prop):
    return _proj


def spec_name(prop):
    return {"C14": "Iauthd.Conf.Spec.Judge.step (C14: a failed load changes nothing and notifies nobody; no memory error)",
            "C15": "Iauthd.Conf.Spec.Judge.step (C15: canonView = file value or registered default; hook iff effective value changed)",
            "C16": "Iauthd.Conf.Spec.Judge.step (C16: render doc layout is read back as canonTree doc; typed values)"}[prop]


def correspondence_name(prop):
    return "correspondence Conf: src/config.c vs Iauthd.Conf (confRead/confRegister/dump, variant %s) on all records" % model_variant()


CEX = ["Iauthd.Conf.Cex.f9_pinned_use_after_free", "Iauthd.Conf.Cex.f9_fixed_ok"]

THEOREMS = {
    "C14": ["Iauthd.Conf.wsGo_reread", "Iauthd.Conf.decodeQ_of_scanQ", "Iauthd.Conf.parseString_spec",
            "Iauthd.Conf.entry_obj_spec", "Iauthd.Conf.parse_fuel_suffices", "Iauthd.Conf.parse_no_fault",
            "Iauthd.Conf.load_total", "Iauthd.Conf.failed_load_inert", "Iauthd.Properties.C14"] + CEX,
    "C15": ["Iauthd.Conf.merge_ok", "Iauthd.Conf.merge_no_fault", "Iauthd.Conf.load_settles_aux", "Iauthd.Conf.load_settles",
            "Iauthd.Conf.reload_idem_aux", "Iauthd.Conf.load_idempotent", "Iauthd.Conf.load_twice", "Iauthd.Conf.load_spelling",
            "Iauthd.Conf.str_hook_iff", "Iauthd.Conf.list_hook_iff", "Iauthd.Conf.pair_hook_iff", "Iauthd.Conf.updInaddr_val",
            "Iauthd.Conf.walk_unmodified_keys", "Iauthd.Conf.register_no_fault", "Iauthd.Conf.history_no_fault",
            "Iauthd.Conf.C15_canonical", "Iauthd.Conf.register_lookup", "Iauthd.Conf.regStr_value",
            "Iauthd.Conf.regList_value", "Iauthd.Conf.regInaddr_value", "Iauthd.Properties.C15",
            "Iauthd.Conf.Cex.f9_pinned_use_after_free", "Iauthd.Conf.Cex.f13_pinned_no_hook", "Iauthd.Conf.Cex.f13_fixed_hook",
            "Iauthd.Conf.Cex.f14_pinned_spurious_hook", "Iauthd.Conf.Cex.f14_fixed_no_hook",
            "Iauthd.Conf.Cex.f15_pinned_default_installed", "Iauthd.Conf.Cex.f15_pinned_other_order", "Iauthd.Conf.Cex.f15_fixed",
            "Iauthd.Conf.Cex.f16_pinned_null_host", "Iauthd.Conf.Cex.f16_fixed_default_host",
            "Iauthd.Conf.Cex.f27_pinned_pointer_bits", "Iauthd.Conf.Cex.f27_fixed_zero"],
    "C16": ["Iauthd.Conf.string_roundtrip", "Iauthd.Conf.scan_roundtrip", "Iauthd.Conf.decodeQ_of_scanQ",
            "Iauthd.Conf.gapAny_ok", "Iauthd.Conf.gapFlat_ok", "Iauthd.Conf.gapOK_block", "Iauthd.Conf.gapOK_line", "Iauthd.Conf.renderPieces_care",
            "Iauthd.Conf.Spec.decodeGap_gapOfPieces", "Iauthd.Properties.C16_all_gaps", "Iauthd.Conf.parseString_at", "Iauthd.Conf.parenLoop_at",
            "Iauthd.Conf.rt_entry", "Iauthd.Conf.rt_entries", "Iauthd.Conf.rt_top", "Iauthd.Conf.parse_rendered",
            "Iauthd.Conf.bridge_ents", "Iauthd.Conf.renderEntries_noNul", "Iauthd.Conf.pfold_canonTree",
            "Iauthd.Conf.C16_partial",
            "Iauthd.Conf.gapAny_care", "Iauthd.Conf.entryEnd_open", "Iauthd.Conf.comma_at", "Iauthd.Conf.rt2_entry",
            "Iauthd.Conf.rt2_block", "Iauthd.Conf.rt2_top", "Iauthd.Conf.parse_rendered2", "Iauthd.Conf.bridge_block",
            "Iauthd.Conf.C16_full", "Iauthd.Properties.C16_any_variant",
            "Iauthd.Conf.boolean_spec", "Iauthd.Conf.integer_spec", "Iauthd.Conf.interval_spec", "Iauthd.Conf.volume_spec",
            "Iauthd.Conf.typed_spec", "Iauthd.Conf.typed_reject", "Iauthd.Conf.typed_accept",
            "Iauthd.Properties.C16", "Iauthd.Properties.C16_typed",
            "Iauthd.Conf.Cex.f10_pinned_bare", "Iauthd.Conf.Cex.f10_pinned_quoted", "Iauthd.Conf.Cex.f10_fixed",
            "Iauthd.Conf.Cex.f11_pinned", "Iauthd.Conf.Cex.f11_fixed",
            "Iauthd.Conf.Cex.f12_pinned_list_before_brace", "Iauthd.Conf.Cex.f12_pinned_object_before_brace",
            "Iauthd.Conf.Cex.f12_pinned_string_at_eof", "Iauthd.Conf.Cex.f12_pinned_comma_list_at_eof", "Iauthd.Conf.Cex.f12_fixed",
            "Iauthd.Conf.Cex.f26_pinned", "Iauthd.Conf.Cex.f26_fixed"],
}


def theorems(prop):
    return THEOREMS[prop]


def lean_imports(prop):
    return ["Iauthd.Properties." + prop]


def lean_targets(prop):
    return lean_imports(prop) + [DRIVER]


def lean_modules(prop):
    mods = ["Iauthd.Conf.Lex", "Iauthd.Conf.Parse", "Iauthd.Conf.Typed", "Iauthd.Conf.Tree", "Iauthd.Conf.Model",
            "Iauthd.Conf.Spec", "Iauthd.Conf.Judge", "Iauthd.Conf.Counterexamples", "Iauthd.Conf.ProofsLex", "Iauthd.Conf.ProofsParse"]
    if prop == "C14":
        mods += ["Iauthd.Conf.ProofsRead"]
    if prop == "C15":
        mods += ["Iauthd.Conf.ProofsHeap", "Iauthd.Conf.ProofsSettle", "Iauthd.Conf.ProofsHooks", "Iauthd.Conf.ProofsRegister"]
    if prop == "C16":
        mods += ["Iauthd.Conf.ProofsRender", "Iauthd.Conf.ProofsCanon", "Iauthd.Conf.ProofsRoundtrip", "Iauthd.Conf.ProofsBridge",
                 "Iauthd.Conf.ProofsRoundtrip2", "Iauthd.Conf.ProofsBridge2", "Iauthd.Conf.ProofsTyped"]
    return mods + ["Iauthd.Properties." + prop]


def checker_cmd(prop):
    return "cd lean && ./lk build Iauthd.Properties.%s drv_conf && #print axioms of every listed theorem; thorough: lake env leanchecker <module>" % prop


def trusted_base(prop):
    return ["Lean 4.33.0 kernel; axioms within {propext, Classical.choice, Quot.sound}",
            "Iauthd/Conf/{Lex,Parse,Typed,Tree}.lean are hand-written from src/config.c + src/common.c; tied by the sampled correspondence only",
            "Iauthd/Conf/{Spec,Judge}.lean: our reading of the property (document grammar, canonical view, effective values)",
            "harness/h_conf.c (supplies log_message/log_type_register/evdns stubs), vlib/eng_conf.py, gcc + ASan/UBSan",
            "struct set is modelled as a sorted association list (C19); strtoul/strcasecmp/isspace as in glibc's C locale"]


def assumptions(prop):
    return ["the configuration file is read in one piece and is a C string: a NUL byte ends it",
            "a path is registered with one node kind/subtype only; defaults of typed settings parse",
            "string values and spliced nodes are modelled by value (moved, not shared); only host/service strings carry ownership tokens",
            "float subtype, conf_lookup/conf_update_node/conf_revert_node and DNS resolution are not modelled"]


def classify(prop, f):
    ops = f.case.body()
    op = ops[f.idx].split(" ")[0] if f.idx is not None and f.idx < len(ops) else "?"
    d = str(f.detail)
    tag = ""
    if "no-fault" in d:
        tag = "fault"
    elif "rc 0 (the file" in d:
        ir = f.impl[f.idx] if f.impl and f.idx < len(f.impl) else ""
        tag = "rejected:" + " ".join(ir.split(" ")[:2])
        # distinguish the layouts: which terminator-less construct is involved is not visible here
    elif "hooks-expected" in d:
        i = d.find("hooks-expected")
        tag = "hooks:" + ":".join(d[i + 15:].split(" ")[:2])
    elif "dump-diff" in d:
        i = d.find("dump-diff")
        tag = "dump:" + ":".join(d[i + 10:].split(" ")[:2])
    elif "val " in d:
        tag = "typed"
    elif "notifies nobody" in d:
        tag = "failed-load-notifies"
    else:
        tag = "other"
    return "conf:%s:%s:%s" % (prop, op, tag)


# ---------------------------------------------------------------- documents

def hx(b):
    return b.hex() if b else "="


def enc_doc(entries):
    out = []
    for name, val in entries:
        k = val[0]
        if k == "S":
            out.append("%s:S%s" % (hx(name), hx(val[1])))
        elif k == "P":
            out.append("%s:P%s+%s" % (hx(name), hx(val[1]), hx(val[2])))
        elif k == "L":
            out.append("%s:L%s" % (hx(name), ",".join(hx(x) for x in val[1])))
        else:
            out.append("%s:O[%s]" % (hx(name), enc_doc(val[1])))
    return ";".join(out)


def render_batch(pairs):
    """[(doc_text, tape)] -> [hex body] through the Lean spec's `render`."""
    if not pairs:
        return []
    text = "\n".join((d if d else ";") + " " + (t if t else "0") for d, t in pairs) + "\n"
    p = subprocess.run([core.drv_path(DRIVER), "render"], input=text, stdout=subprocess.PIPE, text=True, timeout=600)
    out = p.stdout.split("\n")
    if out and out[-1] == "":
        out.pop()
    assert len(out) == len(pairs), "drv_conf render: %d lines for %d requests" % (len(out), len(pairs))
    return out


NAMES = [b"a", b"B", b"c", b"d.e", b"f_g", b"#h", b"_k"]
ODD_NAMES = [b"", b"a b", b"\xe9", b"A", b"b", b"x\"y", b"q\\r", b"1", b"-", b"r001"]
TAPE_CHARS = "0123456789abcdefghijklmnopqrstuvwxyz"


def rand_bytes(rng, kind="any"):
    r = rng.random()
    if kind == "token" or r < 0.45:
        n = rng.choice([1, 1, 2, 3, 6])
        return bytes(rng.choice(b"abcxyzABC019-._#") for _ in range(n))
    if r < 0.6:
        return rng.choice([b"", b" ", b"a b", b"\"", b"\\", b"\\x", b"x;y", b"{", b"}", b"(a,b)", b"/*", b"//", b"*/", b"\n", b"a\tb", b"\\n", b"\x7f", b"\xff\xfe", b"caf\xc3\xa9"])
    n = rng.choice([1, 2, 3, 5, 9, 20])
    return bytes(rng.randint(1, 255) for _ in range(n))


def flip_case(rng, b):
    return bytes((c ^ 0x20) if (65 <= c <= 90 or 97 <= c <= 122) and rng.random() < 0.5 else c for c in b)


def rand_val(rng, depth, names, max_entries):
    r = rng.random()
    if r < 0.35:
        return ("S", rand_bytes(rng))
    if r < 0.5:
        return ("P", rand_bytes(rng), rand_bytes(rng))
    if r < 0.75 or depth <= 1:
        return ("L", [rand_bytes(rng) for _ in range(rng.choice([0, 1, 2, 2, 3, 5]))])
    return ("O", rand_doc(rng, depth - 1, names, max_entries))


def rand_doc(rng, depth, names, max_entries):
    n = rng.randint(0, max_entries)
    out = []
    for _ in range(n):
        if rng.random() < 0.85:
            nm = rng.choice(names)
            if rng.random() < 0.25:
                nm = flip_case(rng, nm)
        else:
            nm = rng.choice(ODD_NAMES)
        out.append((nm, rand_val(rng, depth, names, max_entries)))
    return out


# general gaps (Spec.decodeGap): pieces -> one tape element `[N]`
COMMENT_BODIES = [b"", b"*", b"**", b"***", b" * ", b"/", b"//", b"/*", b"/* /", b"* /", b"a*b", b"x\ny", b"\n*", b"\"", b"\\", b"{};,()",
                  b"\t\r", b"*\n*", b"a /* nested", b"\xff\x80", b"ends with star *", b"* starts", b"/ * /", b"*/"]
LINE_TEXTS = [b"", b" x", b"/", b"//", b"/*", b"*/", b"a{b;c}", b"\"", b"\\", b"\r", b"\t \xfe", b"\n"]
WS_BYTES = [32, 32, 9, 11, 12, 13, 10, 0, 65]


def gap_number(pieces):
    """encode [('ws', byte) | ('nl',) | ('block', body) | ('line', text)] as Spec.gapOfPieces does"""
    out = bytearray()
    for p in pieces:
        if p[0] == "ws":
            out += bytes([0, p[1]])
        elif p[0] == "nl":
            out.append(1)
        else:
            out.append(2 if p[0] == "block" else 3)
            out += p[1].replace(b"\x00", b"") + b"\x00"
    return 36 + int.from_bytes(bytes(out) + b"\x01", "little")


def rand_gap(rng):
    pieces = []
    for _ in range(rng.choice([1, 1, 2, 3, 5])):
        k = rng.random()
        if k < 0.3:
            pieces.append(("ws", rng.choice(WS_BYTES)))
        elif k < 0.4:
            pieces.append(("nl",))
        elif k < 0.8:
            body = rng.choice(COMMENT_BODIES) if rng.random() < 0.7 else bytes(rng.choice(b"*/ a\n") for _ in range(rng.randint(0, 8)))
            pieces.append(("block", body))
        else:
            pieces.append(("line", rng.choice(LINE_TEXTS)))
    return "[%d]" % gap_number(pieces)


def rand_tape(rng, n=160, style=None):
    style = style or rng.choice(["wild", "wild", "terse", "quoted", "noterm", "gaps", "gaps"])
    if style == "gaps":
        # small choices everywhere, general gaps sprinkled over them
        return "".join(rand_gap(rng) if rng.random() < 0.35 else rng.choice(TAPE_CHARS[:10]) for _ in range(n))
    if style == "terse":
        return "".join(rng.choice("00001") for _ in range(n))
    if style == "quoted":
        return "".join(rng.choice("1357924") for _ in range(n))
    if style == "noterm":
        return "".join(rng.choice("0033377") for _ in range(n))
    return "".join(rng.choice(TAPE_CHARS) for _ in range(n))


# ---------------------------------------------------------------- schemas (C15, C14 prior states)

TYPED_POOL = {
    1: [b"true", b"false", b"on", b"off", b"yes", b"no", b"1", b"0", b"enabled", b"disabled", b"maybe", b"TRUE", b""],
    2: [b"0", b"7", b"321", b"0x1f", b"017", b"2147483647", b"12z", b"1.5", b"-1", b"", b"0x", b"4294967297"],
    4: [b"30", b"1h", b"2h3m4s", b"1y2d03:04:05", b"1d", b"90s", b"123z", b"1:2:3:", b"5m", b"0", b"1w"],
    5: [b"5B", b"1G2M3K4", b"10k", b"4096", b"1m", b"3g", b"12q", b"1.5G", b"0", b"2K2K"],
}
TYPED_DEFAULT = {1: [b"true", b"false"], 2: [b"0", b"42"], 4: [b"0", b"30", b"1h"], 5: [b"0", b"1K"]}


def rand_schema(rng, names, depth=3):
    """list of registrations: (path tuple, kind letter, subtype, default text, hook)"""
    regs = []
    used = set()
    n = rng.choice([0, 1, 2, 3, 4, 6, 8])
    objs = [()]
    for _ in range(n):
        parent = rng.choice(objs)
        nm = rng.choice(names)
        kind = rng.choice("ssssalllo")
        path = parent + (nm,)
        key = (tuple(p.lower() for p in path), kind.lower())
        if key in used or len(path) > depth:
            continue
        used.add(key)
        hook = 1 if rng.random() < 0.7 else 0
        if kind == "s":
            sub = rng.choice([0, 0, 0, 1, 2, 4, 5])
            if sub == 0:
                d = rng.choice([None, None, b"", b"dflt", b"x"])
            else:
                d = rng.choice(TYPED_DEFAULT[sub])
            regs.append((path, "s", sub, hx(d) if d is not None else "-", hook))
        elif kind == "a":
            dh = rng.choice([None, b"localhost", b"::1"])
            ds = rng.choice([None, b"80", b"ircd"])
            regs.append((path, "a", 0, "%s:%s" % (hx(dh) if dh is not None else "-", hx(ds) if ds is not None else "-"), hook))
        elif kind == "l":
            items = [rng.choice([b"p", b"q", b"r s", b""]) for _ in range(rng.choice([0, 0, 1, 2, 3]))]
            regs.append((path, rng.choice("lL"), 0, ",".join(hx(x) for x in items) if items else "-", hook))
        else:
            regs.append((path, "o", 0, "-", hook))
            objs.append(path)
    return regs


def reg_line(reg):
    path, kind, sub, d, hook = reg
    return "reg %s %s %d %s hook=%d" % (kind, "/".join(hx(p) for p in path), sub, d, hook)


def schema_doc(rng, regs, names, depth=3):
    """a document biased towards the registered paths (values from the typed pools), plus extras"""
    def build(prefix, d):
        ents = []
        here = [r for r in regs if r[0][:-1] == prefix]
        for r in here:
            if rng.random() < 0.6:
                nm = r[0][-1]
                if rng.random() < 0.2:
                    nm = flip_case(rng, nm)
                k = r[1].lower()
                if k == "s":
                    v = rng.choice(TYPED_POOL[r[2]]) if r[2] else rand_bytes(rng)
                    ents.append((nm, ("S", v)))
                elif k == "a":
                    ents.append((nm, ("P", rng.choice([b"host", b"HOST", b"10.0.0.1", b"::1"]), rng.choice([b"80", b"6667", b"ircd", b"IRCD"]))))
                elif k == "l":
                    ents.append((nm, ("L", [rng.choice([b"p", b"q", b"r s", b"z"]) for _ in range(rng.choice([0, 0, 1, 2, 3]))])))
                elif d > 1:
                    ents.append((nm, ("O", build(r[0], d - 1))))
        for _ in range(rng.choice([0, 0, 1, 2])):
            nm = rng.choice(names)
            ents.append((nm, rand_val(rng, d, names, 3)))
        rng.shuffle(ents)
        if ents and rng.random() < 0.2:      # a repeated key
            ents.append(rng.choice(ents))
        return ents
    return build((), depth)


# ---------------------------------------------------------------- C15

def c15_case(rng, name, names):
    regs = rand_schema(rng, names)
    point = {}
    nfiles = rng.choice([1, 2, 2, 3, 3, 4])
    for i, _r in enumerate(regs):
        point[i] = rng.randint(0, nfiles)          # before file #k (nfiles = after all)
    docs = []
    for k in range(nfiles):
        if k > 0 and rng.random() < 0.3:
            docs.append(docs[rng.randrange(len(docs))])     # same content again
        elif rng.random() < 0.08:
            docs.append([])
        else:
            docs.append(schema_doc(rng, regs, names))
    steps = []
    for k in range(nfiles + 1):
        for i, r in enumerate(regs):
            if point[i] == k:
                steps.append(("line", reg_line(r)))
        if k < nfiles:
            steps.append(("read", docs[k]))
            steps.append(("line", "dump"))
            if rng.random() < 0.35:
                steps.append(("read", docs[k]))
                steps.append(("line", "dump"))
    steps.append(("line", "dump"))
    if rng.random() < 0.3:
        # a hook installed directly on a node the file created (src/log.c does this)
        cands = [(n, v) for n, v in (docs[0] if docs else []) if v[0] in "SL"]
        if cands:
            n, v = rng.choice(cands)
            pos = next(i for i, s in enumerate(steps) if s[0] == "read") + 1
            steps.insert(pos, ("line", "hook %s %s" % ("s" if v[0] == "S" else "l", hx(n))))
    return name, steps


def materialise(protos, default_tape=None):
    """protos: [(name, steps)], steps of ('line', text) | ('read', doc[, tape]) -> Cases"""
    reqs = []
    for _name, steps in protos:
        for s in steps:
            if s[0] == "read":
                reqs.append((enc_doc(s[1]), s[2] if len(s) > 2 else (default_tape or "0")))
    bodies = render_batch(reqs)
    cases = []
    bi = 0
    for name, steps in protos:
        lines = []
        for s in steps:
            if s[0] == "line":
                lines.append(s[1])
            else:
                d, t = reqs[bi]
                line = "read %s doc=%s" % (bodies[bi], d if d else ";")
                if len(s) > 2:
                    line += " lay=" + t
                lines.append(line)
                bi += 1
        cases.append(Case(name, lines))
    return cases


def gen_c15(tier, seed):
    rng = core.rng_for(seed, "conf15")
    n = 3000 if tier == "quick" else 60000
    protos = []
    for i in range(n):
        names = NAMES if rng.random() < 0.8 else NAMES[:3]
        protos.append(c15_case(rng, "c15/%d" % i, names))
    # all sequences of length 3 over hand-picked files (thorough: 12 files, quick: 5)
    regs = [((b"a",), "s", 0, "-", 1), ((b"B",), "s", 2, hx(b"7"), 1), ((b"c",), "a", 0, "%s:%s" % (hx(b"dh"), hx(b"ds")), 1),
            ((b"d.e",), "l", 0, hx(b"p"), 1), ((b"f_g",), "o", 0, "-", 1), ((b"f_g", b"a"), "s", 0, hx(b"in"), 1)]
    files = [[], [(b"a", ("S", b"x"))], [(b"a", ("S", b"y")), (b"B", ("S", b"9"))], [(b"c", ("P", b"h", b"s"))],
             [(b"d.e", ("L", []))], [(b"d.e", ("L", [b"p", b"q"]))], [(b"f_g", ("O", [(b"a", ("S", b"1")), (b"z", ("S", b"2"))]))],
             [(b"f_g", ("O", []))], [(b"B", ("S", b"zz"))], [(b"c", ("P", b"H", b"S")), (b"a", ("S", b"x"))],
             [(b"q", ("O", [(b"r", ("O", [(b"s", ("L", [b"1"]))]))]))], [(b"A", ("S", b"x")), (b"a", ("L", [b"x"]))]]
    files = files if tier == "thorough" else files[:6]
    k = 0
    for seq in itertools.product(range(len(files)), repeat=3):
        for when in ((0, 3) if tier == "quick" else (0, 1, 3)):
            steps = []
            for j in range(4):
                if j == when:
                    steps += [("line", reg_line(r)) for r in regs]
                if j < 3:
                    steps += [("read", files[seq[j]]), ("line", "dump")]
            steps.append(("line", "dump"))
            protos.append(("c15seq/%d" % k, steps))
            k += 1
    return materialise(protos)


# ---------------------------------------------------------------- C16

def tape_roles(doc):
    """moduli of the tape positions `layoutOfTape` consumes for this document (for enumeration)"""
    roles = []

    def s(b):
        roles.append(("bare", 2))

    def sq(b):  # quoted: one esc per byte
        pass

    def val(v):
        if v[0] == "S":
            s(v[1])
        elif v[0] == "P":
            s(v[1]); roles.append(("gapflat", 10)); s(v[2])
        elif v[0] == "L":
            roles.append(("paren", 2)); roles.append(("gap", 10))
            for x in v[1]:
                roles.append(("gap", 10)); s(x); roles.append(("gap", 10))
            roles.append(("gap", 10))
        else:
            roles.append(("gap", 10)); ents(v[1]); roles.append(("gap", 10))

    def ents(es):
        for n, v in es:
            roles.append(("gap", 10)); s(n); roles.append(("gap", 10)); val(v)
            roles.append(("gapflat", 10)); roles.append(("term", 4))
    ents(doc)
    roles.append(("gap", 10))
    return roles


SMALL_DOCS = [
    [(b"a", ("S", b"b"))],
    [(b"a", ("O", [(b"b", ("S", b"c"))]))],
    [(b"a", ("L", [b"b", b"c"]))],
    [(b"a", ("O", [(b"b", ("L", [b"c", b"d"]))]))],
    [(b"a", ("P", b"h", b"s"))],
    [(b"a", ("O", [(b"b", ("P", b"h", b"s"))])), (b"z", ("S", b"y"))],
    [(b"a", ("O", [(b"b", ("O", []))]))],
    [(b"a", ("L", [])), (b"b", ("S", b"c"))],
]


def enum_layouts(doc, window, limit):
    """all-bare tapes: every combination of choices in each window of `window` consecutive choice
    points (others default 0).  Bare choice positions stay 0 (bare) so that positions line up."""
    roles = tape_roles(doc)
    gaps = [0, 1, 2, 4, 5, 3]
    out = set()
    for start in range(0, max(1, len(roles) - window + 1)):
        idxs = list(range(start, min(len(roles), start + window)))
        choices = []
        for i in idxs:
            r = roles[i][0]
            if r == "bare":
                choices.append([0])
            elif r in ("gap", "gapflat"):
                choices.append(gaps)
            elif r == "term":
                choices.append([0, 1, 2, 3])
            else:
                choices.append([0, 1])
        for combo in itertools.product(*choices):
            t = [0] * len(roles)
            for i, c in zip(idxs, combo):
                t[i] = c
            out.add("".join(TAPE_CHARS[c] for c in t))
            if len(out) >= limit:
                return sorted(out)
    return sorted(out)


def gen_c16(tier, seed):
    rng = core.rng_for(seed, "conf16")
    protos = []
    ndocs = 700 if tier == "quick" else 40000
    per = 6 if tier == "quick" else 20
    for i in range(ndocs):
        depth = rng.choice([1, 2, 3])
        doc = rand_doc(rng, depth, NAMES, rng.choice([1, 2, 3, 6]))
        for j in range(per):
            tape = rand_tape(rng, 40 + 30 * len(doc) * depth)
            protos.append(("c16/%d.%d" % (i, j), [("read", doc, tape), ("line", "dump")]))
    # the last quoted string of the file ends in a backslash (or another escape) and only bare words,
    # punctuation and comments follow: nothing after it may be taken for its closing quote
    # (seeded change C16-3 looked one raw byte back to decide whether a quote is escaped)
    for i in range(60 if tier == "quick" else 2000):
        tail = rng.choice([b"\\", b"C:\\iauth\\", b"x\\\\", b"\"\\", b"a\\\"\\", b"\n\\", b"q\\"])
        ev = lambda: rng.choice("02468")                       # even digit: bare string / small gap / ';'
        def ent(name, val, quoted):
            # tape digits of one entry with a string value: pre-gap, name, sep-gap, value, gap, terminator
            t = ev() + ev() + ev()
            if quoted:
                t += rng.choice("13579") + "".join(rng.choice("4499" if c in (92, 34) else "0499") for c in val)
            else:
                t += ev()
            return t + ev() + rng.choice("0246")
        pre = [(rng.choice(NAMES[:3]), rand_bytes(rng, "token")) for _ in range(rng.choice([0, 1, 2]))]
        post = [(rng.choice(NAMES[3:5]), rand_bytes(rng, "token")) for _ in range(rng.choice([0, 0, 1, 2]))]
        doc = [(n, ("S", v)) for n, v in pre] + [(b"z9", ("S", tail))] + [(n, ("S", v)) for n, v in post]
        tape = "".join(ent(n, v, False) for n, v in pre) + ent(b"z9", tail, True) + "".join(ent(n, v, False) for n, v in post) + "0"
        protos.append(("c16tail/%d" % i, [("read", doc, tape), ("line", "dump")]))
    # exhaustive windows over small documents
    window, limit = (3, 400) if tier == "quick" else (5, 60000)
    for di, doc in enumerate(SMALL_DOCS):
        for ti, tape in enumerate(enum_layouts(doc, window, limit)):
            protos.append(("c16enum/%d.%d" % (di, ti), [("read", doc, tape), ("line", "dump")]))
    # typed settings: registered, then written in a file
    for i in range(400 if tier == "quick" else 5000):
        sub = rng.choice([1, 2, 4, 5])
        steps = [("line", "reg s %s %d %s hook=1" % (hx(b"t"), sub, hx(rng.choice(TYPED_DEFAULT[sub]))))]
        for _ in range(rng.choice([1, 2, 3])):
            v = rng.choice(TYPED_POOL[sub]) if rng.random() < 0.7 else typed_text(rng, sub)
            steps += [("read", [(b"t", ("S", v))], rand_tape(rng, 20)), ("line", "dump")]
        protos.append(("c16typed/%d" % i, steps))
    cases = materialise(protos)
    # the typed parsers directly
    lines = []
    for sub in (1, 2, 4, 5):
        for v in TYPED_POOL[sub]:
            lines.append("parse %d %s" % (sub, hx(v)))
    for i in range(3000 if tier == "quick" else 100000):
        sub = rng.choice([1, 2, 4, 5])
        lines.append("parse %d %s" % (sub, hx(typed_text(rng, sub))))
    for k in range(0, len(lines), 200):
        cases.append(Case("c16parse/%d" % (k // 200), lines[k:k + 200]))
    return cases


def typed_text(rng, sub):
    if sub == 1:
        return rng.choice(TYPED_POOL[1] + [b"tru", b"truee", b"On", b"2", b"00"])
    if sub == 2:
        r = rng.random()
        if r < 0.3:
            return str(rng.choice([0, 1, 9, 10, 255, 65535, 2**31 - 1, 2**31, 2**32 - 1, 2**32, 2**64, rng.randint(0, 2**33)])).encode()
        if r < 0.5:
            return ("0x%x" % rng.randint(0, 2**33)).encode()
        if r < 0.65:
            return ("0%o" % rng.randint(0, 2**33)).encode()
        return bytes(rng.choice(b"0123456789abcdefxX+- 789") for _ in range(rng.randint(0, 6)))
    if sub == 4:
        r = rng.random()
        if r < 0.5:
            parts = []
            for u in rng.sample("ydhms", rng.randint(1, 4)):
                parts.append("%d%s" % (rng.choice([0, 1, 2, 59, 60, 365, 1000, 70000]), u))
            t = "".join(parts)
            if rng.random() < 0.3:
                t += str(rng.randint(0, 99))
            return t.encode()
        if r < 0.65:
            return ("%d:%02d:%02d" % (rng.randint(0, 99), rng.randint(0, 59), rng.randint(0, 59))).encode()
        return bytes(rng.choice(b"0123456789ydhms::w ") for _ in range(rng.randint(0, 7)))
    r = rng.random()
    if r < 0.55:
        parts = []
        for u in rng.sample("GMKBgmkb", rng.randint(1, 3)):
            parts.append("%d%s" % (rng.choice([0, 1, 2, 3, 4, 5, 1023, 1024, 4095]), u))
        t = "".join(parts)
        if rng.random() < 0.3:
            t += str(rng.randint(0, 999))
        return t.encode()
    return bytes(rng.choice(b"0123456789GMKBgmkb.qT ") for _ in range(rng.randint(0, 6)))


# ---------------------------------------------------------------- C14

ALPHABET14 = [b"a", b"\"", b"\\", b"x", b"4", b"(", b")", b"{", b"}", b",", b";", b"/", b"*", b"\n"]


def prior_states(rng, k):
    """k setups: registrations with hooks + one valid load (as proto steps)"""
    out = []
    for _ in range(k):
        regs = rand_schema(rng, NAMES)
        doc = schema_doc(rng, regs, NAMES)
        half = len(regs) // 2
        steps = [("line", reg_line(r)) for r in regs[:half]]
        steps.append(("read", doc))
        steps += [("line", reg_line(r)) for r in regs[half:]]
        out.append(steps)
    out[0] = []     # the empty configuration
    if k > 1:
        # string lists registered with a default of exactly one element, not yet given by any file: the
        # first file that gives them more elements grows a vector that was allocated for one (seeded
        # change C14-11x14 grew vectors by half, so a capacity of one never grew)
        out[1] = [("line", reg_line(((b"a",), "l", 0, hx(b"one"), 1))), ("line", reg_line(((b"B",), "l", 0, hx(b"q"), 0)))]
    return out


def gen_c14(tier, seed):
    rng = core.rng_for(seed, "conf14")
    priors = prior_states(rng, 6 if tier == "quick" else 20)
    bodies = []        # (tag, bytes)
    maxlen = 4
    for n in range(0, maxlen + 1):
        for combo in itertools.product(ALPHABET14, repeat=n):
            bodies.append(("short", b"".join(combo)))
    # valid files: generated + the repository's own
    valid = []
    nvalid = 40 if tier == "quick" else 300
    reqs = []
    for i in range(nvalid):
        doc = rand_doc(rng, rng.choice([1, 2, 3]), NAMES, rng.choice([1, 2, 4]))
        reqs.append((enc_doc(doc), rand_tape(rng, 120, rng.choice(["terse", "wild", "quoted"]))))
    for h in render_batch(reqs):
        valid.append(bytes.fromhex(h) if h != "=" else b"")
    r = core.repo()
    repo_files = []
    for fn in ["doc/iauthd-c.conf.example", "tests/unit-tests.conf", "tests/coverage-1.conf", "tests/coverage-2.conf"]:
        p = os.path.join(r, fn)
        if os.path.exists(p):
            repo_files.append(open(p, "rb").read())
    structural = b"\"\\(){},;/*\n x0"
    for f in valid:
        for i in range(len(f) + 1):
            bodies.append(("trunc", f[:i]))
        for i in range(len(f)):
            bodies.append(("flip", f[:i] + bytes([f[i] ^ (1 << rng.randrange(8))]) + f[i + 1:]))
            bodies.append(("flip", f[:i] + bytes([rng.choice(structural)]) + f[i + 1:]))
    for f in repo_files:
        step = 1 if tier == "thorough" else 7
        for i in range(0, len(f) + 1, step):
            bodies.append(("trunc", f[:i]))
        for i in range(rng.randrange(step), len(f), step):
            bodies.append(("flip", f[:i] + bytes([rng.choice(structural)]) + f[i + 1:]))
            bodies.append(("flip", f[:i] + bytes([f[i] ^ (1 << rng.randrange(8))]) + f[i + 1:]))
        bodies.append(("valid", f))
    # files whose size is exactly a multiple of the page size (and one byte either side), valid and cut
    # short: however the text gets into memory, the parser must find its end (seeded change C14-4
    # mapped the file and relied on the zero fill behind it)
    for size in (4096, 8192, 16384):
        for delta in (-1, 0, 1):
            n = size + delta
            base = b"a b;\nc (d, e);\nf { g h; }\n"
            pad = b"// " + b"x" * 60 + b"\n"
            body = base + pad * ((n - len(base)) // len(pad))
            body += b"#" * 0 + b" " * (n - len(body))
            bodies.append(("pagesize", body))
            bodies.append(("pagesize", body[:-3] + b"{ x"))       # same size, premature end of file
    # quoted strings that end in every kind of complete, partial and unknown escape: the two passes
    # of conf_parse_string (size, then copy) must agree on where the string ends
    tails = [b"\\", b"\\x", b"\\x7", b"\\x7g", b"\\xg", b"\\x41", b"\\x4", b"\\xff", b"\\0", b"\\1", b"\\12", b"\\123",
             b"\\1234", b"\\8", b"\\n", b"\\q", b"\\\"", b"\\\\", b"\\x\\x7", b"\\x7\\x7", b"\\\n", b"\\x\n7"]
    for t in tails:
        for pre in (b"", b"w", b"welcome to the net"):
            for after in (b"", b"\n", b";\nb \"later\";\n", b";\n" + b"// filler line\n" * 40 + b"c \"far\";\n", b" }"):
                bodies.append(("escape-edge", b"a \"" + pre + t + b"\"" + after))
                bodies.append(("escape-edge", b"a (\"" + pre + t + b"\", \"" + t + b"\")" + after))
    for nel in (2, 3, 4, 5, 9, 17):
        items = b", ".join(b"e%d" % j for j in range(nel))
        bodies.append(("list-grows", b"a (" + items + b");\n"))
        bodies.append(("list-grows", b"B " + items + b"\n"))
        bodies.append(("list-grows", b"a (" + items + b"\n"))          # cut short: rejected, nothing may change
    for i in range(400 if tier == "quick" else 20000):
        n = rng.choice([1, 2, 3, 8, 20, 60])
        if rng.random() < 0.5:
            bodies.append(("random", bytes(rng.randrange(256) for _ in range(n))))
        else:
            bodies.append(("random", bytes(rng.choice(structural + b"ab") for _ in range(n))))
    # distribute: each body on top of `reps` prior states
    reps = 1 if tier == "quick" else 3
    per_case = 120
    protos = []
    buckets = [[] for _ in priors]
    for bi, (_tag, b) in enumerate(bodies):
        for rr in range(reps):
            buckets[(bi + rr * 7) % len(priors)].append(b)
    k = 0
    for pi, bucket in enumerate(buckets):
        for off in range(0, len(bucket), per_case):
            steps = list(priors[pi]) + [("line", "dump")]
            for b in bucket[off:off + per_case]:
                steps.append(("line", "read " + hx(b)))
                steps.append(("line", "dump"))
            protos.append(("c14/%d.%d" % (pi, k), steps))
            k += 1
    cases = materialise(protos)
    for c in cases:
        c.tags["c14"] = True
    return cases


def gen_cases(prop, tier, seed):
    if prop == "C14":
        return gen_c14(tier, seed)
    if prop == "C15":
        return gen_c15(tier, seed)
    return gen_c16(tier, seed)


def search_cases(prop, finding, seed):
    """model and code diverged without a property failure: a fresh, larger random batch"""
    return gen_cases(prop, "quick", seed + 7919)


def coverage(prop, tier, cases, impl, model, spec):
    ops = {}
    rcs = {}
    distinct = set()
    nontrivial = 0
    hooks_fired = 0
    reads = 0
    for c, ir in zip(cases, impl):
        k = c.key()
        if k in distinct:
            continue
        distinct.add(k)
        nt = False
        for l, r in zip(c.body(), ir):
            w = l.split(" ", 1)[0]
            ops[w] = ops.get(w, 0) + 1
            if w == "read":
                reads += 1
                code = " ".join(r.split(" ")[:2])
                rcs[code] = rcs.get(code, 0) + 1
                if " hooks -" not in r and r.startswith("rc"):
                    hooks_fired += 1
                if prop == "C14":
                    nt = nt or not r.startswith("rc 0")
                else:
                    nt = nt or r.startswith("rc 0")
        if nt:
            nontrivial += 1
    return {
        "evaluations": len(cases),
        "distinct_nontrivial": nontrivial,
        "rule": {"C14": "all byte strings of length <= 4 over the 14-symbol alphabet, every truncation and single-byte flip of generated valid "
                        "files and of the repository's example/test files, random bytes; each on top of previously loaded configurations with "
                        "registrations and hooks; non-trivial = a case containing a rejected file",
                 "C15": "random registration schemas (6 names x 4 kinds x depth <= 3, typed subtypes) registered before / between / after loads of "
                        "1-4 documents biased to the schema, repeated loads, direct hook installation; plus every length-3 sequence over hand-picked "
                        "files with registration before or after; non-trivial = a case with a successful load",
                 "C16": "random documents (depth <= 3, <= 6 entries, all byte values except NUL) x random layout tapes (incl. general gaps: arbitrary runs of blanks, newlines, C comments with bodies such as '*', '**', '/*', C++ comments), exhaustive choice windows over "
                        "small documents, typed settings written in files, the typed parsers on pools and random texts; non-trivial = a case with an accepted file"}[prop],
        "samples": [c.lines[:6] for c in cases[:2]] + [c.lines[:6] for c in cases[-1:]],
        "op_histogram": ops, "read_results": rcs, "reads": reads, "reads_with_hooks": hooks_fired,
        "model_variant": model_variant(),
        "exhaustive": False,
        "traces_validated_against_impl": len(cases),
    }
