"""Shared machinery of the iauthd-c verification checks (see DESIGN.md sections 3, 4, 8).

Everything a check needs that is not specific to one engine lives here:
  * locating the repository under test ($VERIF_REPO, default /repo);
  * building the Lean library + drivers under a lock, auditing proofs/axioms;
  * compiling C harnesses from the repository's working tree (ASan + UBSan);
  * running harness / model driver / spec driver over op files in parallel;
  * aligning records per case, delta-debugging a failing case, writing replays;
  * known findings, evidence files.
"""
import fcntl
import hashlib
import json
import os
import random
import re
import shutil
import subprocess
import sys
import tempfile
import time
from concurrent.futures import ThreadPoolExecutor

VERIF = os.path.dirname(os.path.dirname(os.path.abspath(__file__)))
LEAN_DIR = os.path.join(VERIF, "lean")
HARNESS_DIR = os.path.join(VERIF, "harness")
CORPUS_DIR = os.path.join(VERIF, "corpus")
EVIDENCE_DIR = os.path.join(VERIF, "evidence")
REPLAY_DIR = os.path.join(VERIF, "replays")
KNOWN_FINDINGS = os.path.join(VERIF, "known_findings.json")
GUARD = "IAUTHD_C_VERIF"
NCPU = max(1, (os.cpu_count() or 4))
ALLOWED_AXIOMS = {"propext", "Classical.choice", "Quot.sound"}
FORBIDDEN = re.compile(r"\bsorry\b|\badmit\b|^\s*axiom\s|native_decide|bv_decide|implemented_by|\bunsafe\s|maxHeartbeats\s+0")


def repo():
    return os.environ.get("VERIF_REPO", "/repo")


def log(*a):
    print(*a, file=sys.stderr, flush=True)


# ----------------------------------------------------------------------------------
# Lean side
# ----------------------------------------------------------------------------------

class LeanStatus:
    def __init__(self):
        self.ok = True
        self.problems = []          # strings
        self.theorems = {}          # name -> axioms list (or None when missing)
        self.build_s = 0.0
        self.audit_s = 0.0


def _lake_lock():
    os.makedirs(LEAN_DIR, exist_ok=True)
    f = open(os.path.join(LEAN_DIR, ".build.lock"), "w")
    fcntl.flock(f, fcntl.LOCK_EX)
    return f


def lean_build(targets=None):
    """`lake build` (incremental; cold build happens in --setup or here).  Returns (ok, output)."""
    lock = _lake_lock()
    try:
        t0 = time.time()
        cmd = ["lake", "build"] + (targets or [])
        p = subprocess.run(cmd, cwd=LEAN_DIR, stdout=subprocess.PIPE, stderr=subprocess.STDOUT, text=True)
        return p.returncode == 0, p.stdout, time.time() - t0
    finally:
        lock.close()


def strip_lean_comments(src):
    out = []
    i, n, depth = 0, len(src), 0
    while i < n:
        if src.startswith("/-", i):
            depth += 1
            i += 2
        elif depth and src.startswith("-/", i):
            depth -= 1
            i += 2
        elif depth:
            if src[i] == "\n":
                out.append("\n")
            i += 1
        elif src.startswith("--", i):
            while i < n and src[i] != "\n":
                i += 1
        else:
            out.append(src[i])
            i += 1
    return "".join(out)


def lean_closure(modules):
    """files of our own modules transitively imported by `modules`"""
    seen, todo, files = set(), list(modules), []
    while todo:
        m = todo.pop()
        if m in seen:
            continue
        seen.add(m)
        path = os.path.join(LEAN_DIR, m.replace(".", "/") + ".lean")
        if not os.path.exists(path):
            continue
        files.append(path)
        for line in open(path, encoding="utf-8"):
            mm = re.match(r"\s*import\s+([\w.]+)", line)
            if mm:
                todo.append(mm.group(1))
    return sorted(files)


def lean_grep_forbidden(modules):
    hits = []
    for path in lean_closure(modules):
        src = strip_lean_comments(open(path, encoding="utf-8").read())
        # string literals may mention the words; drop them
        src = re.sub(r'"(?:[^"\\]|\\.)*"', '""', src)
        for ln, line in enumerate(src.split("\n"), 1):
            if FORBIDDEN.search(line):
                hits.append("%s:%d: %s" % (os.path.relpath(path, VERIF), ln, line.strip()[:100]))
    return hits


def lean_audit(prop, theorems, imports, targets=None):
    """#print axioms for every theorem of a property.  Returns LeanStatus."""
    st = LeanStatus()
    ok, out, dt = lean_build(targets)
    st.build_s = dt
    if not ok:
        st.ok = False
        st.problems.append("lake build failed:\n" + out[-3000:])
    hits = lean_grep_forbidden(imports)
    if hits:
        st.ok = False
        st.problems.append("forbidden constructs in Lean sources: " + "; ".join(hits[:10]))
    t0 = time.time()
    src = "".join("import %s\n" % m for m in imports)
    for th in theorems:
        src += "#print axioms %s\n" % th
    lock = _lake_lock()
    try:
        with tempfile.NamedTemporaryFile("w", suffix=".lean", dir=LEAN_DIR, prefix=".audit_%s_" % prop, delete=False) as f:
            f.write(src)
            tmp = f.name
        p = subprocess.run(["lake", "env", "lean", tmp], cwd=LEAN_DIR, stdout=subprocess.PIPE, stderr=subprocess.STDOUT, text=True)
    finally:
        try:
            os.unlink(tmp)
        except OSError:
            pass
        lock.close()
    text = p.stdout
    for th in theorems:
        st.theorems[th] = None
    for m in re.finditer(r"'(\S+)' depends on axioms: \[([^\]]*)\]", text):
        st.theorems[m.group(1)] = [a.strip() for a in m.group(2).replace("\n", " ").split(",") if a.strip()]
    for m in re.finditer(r"'(\S+)' does not depend on any axioms", text):
        st.theorems[m.group(1)] = []
    for th in theorems:
        ax = st.theorems.get(th)
        if ax is None:
            st.ok = False
            st.problems.append("theorem %s: not found / does not check" % th)
        else:
            bad = [a for a in ax if a not in ALLOWED_AXIOMS]
            if bad:
                st.ok = False
                st.problems.append("theorem %s depends on disallowed axioms %s" % (th, bad))
    if p.returncode != 0 and st.ok:
        st.ok = False
        st.problems.append("audit file failed: " + text[-1500:])
    st.audit_s = time.time() - t0
    return st


def leanchecker(modules):
    """thorough tier: independent re-check of compiled modules."""
    problems = []
    for m in modules:
        lock = _lake_lock()
        try:
            p = subprocess.run(["lake", "env", "leanchecker", m], cwd=LEAN_DIR, stdout=subprocess.PIPE, stderr=subprocess.STDOUT, text=True)
        finally:
            lock.close()
        if p.returncode != 0:
            problems.append("leanchecker %s: %s" % (m, p.stdout[-500:]))
    return problems


def drv_path(name):
    return os.path.join(LEAN_DIR, ".lake", "build", "bin", name)


# ----------------------------------------------------------------------------------
# C side
# ----------------------------------------------------------------------------------

SAN_FLAGS = ["-fsanitize=address,undefined", "-fno-sanitize-recover=all", "-fno-omit-frame-pointer"]
BASE_CFLAGS = ["-std=gnu99", "-O1", "-g", "-D" + GUARD, "-DHAVE_CONFIG_H"]


def run_env():
    env = dict(os.environ)
    env["ASAN_OPTIONS"] = "detect_leaks=0:abort_on_error=0:exitcode=99:allocator_may_return_null=1"
    env["UBSAN_OPTIONS"] = "print_stacktrace=0:halt_on_error=1:exitcode=98"
    env["TZ"] = "UTC"
    return env


def include_flags(workdir):
    r = repo()
    flags = ["-I" + r, "-I" + HARNESS_DIR]
    if not os.path.exists(os.path.join(r, "autoconf.h")):
        fb = os.path.join(workdir, "fallback_inc")
        os.makedirs(fb, exist_ok=True)
        shutil.copy(os.path.join(HARNESS_DIR, "autoconf.fallback.h"), os.path.join(fb, "autoconf.h"))
        flags.append("-I" + fb)
    return flags


def compile_c(workdir, out_name, sources, extra=None, sanitize=True, libs=None, objs_parallel=True):
    """Compile sources (absolute paths or (path, [per-file flags])) into workdir/out_name.
    Returns (path|None, log)."""
    out = os.path.join(workdir, out_name)
    cov = os.environ.get("VERIF_COVERAGE") == "1"        # tools/coverage.py: gcov build, no sanitizers
    if cov:
        sanitize = False
        extra = list(extra or []) + ["--coverage", "-O0", "-DH_COVERAGE"]
        libs = list(libs or []) + ["--coverage"]
    flags = BASE_CFLAGS + (SAN_FLAGS if sanitize else []) + include_flags(workdir) + (extra or [])
    objs, jobs = [], []
    for idx, s in enumerate(sources):
        per = []
        if isinstance(s, tuple):
            s, per = s
        o = os.path.join(workdir, "%s_%d_%s.o" % (out_name, idx, os.path.basename(s).replace(".", "_")))
        objs.append(o)
        jobs.append(["gcc"] + flags + per + ["-c", s, "-o", o])
    logs = []

    def one(cmd):
        p = subprocess.run(cmd, stdout=subprocess.PIPE, stderr=subprocess.STDOUT, text=True)
        return p.returncode, " ".join(cmd) + "\n" + p.stdout

    with ThreadPoolExecutor(max_workers=NCPU) as ex:
        res = list(ex.map(one, jobs))
    for rc, lg in res:
        if rc != 0:
            logs.append(lg)
    if logs:
        return None, "\n".join(logs)[-4000:]
    link = ["gcc"] + (SAN_FLAGS if sanitize else []) + objs + ["-o", out] + (libs or [])
    p = subprocess.run(link, stdout=subprocess.PIPE, stderr=subprocess.STDOUT, text=True)
    if p.returncode != 0:
        return None, " ".join(link) + "\n" + p.stdout[-4000:]
    return out, ""


# ----------------------------------------------------------------------------------
# Cases and runs
# ----------------------------------------------------------------------------------

class Case:
    """One independent scenario.  lines[0] is always `case <name>`."""
    __slots__ = ("name", "lines", "tags", "origin")

    def __init__(self, name, lines, tags=None, origin="gen"):
        self.name = name
        self.lines = ["case " + name] + [l for l in lines]
        self.tags = tags or {}
        self.origin = origin

    def body(self):
        return self.lines[1:]

    def key(self):
        return hashlib.sha1("\n".join(self.lines[1:]).encode()).hexdigest()


def _run_tool(cmd, text, timeout):
    # a private TMPDIR per run: a case that dies inside the implementation (crash, watchdog) cannot
    # remove the scratch files its harness made, so the whole directory goes afterwards
    td = tempfile.mkdtemp(prefix="iauthd_verif_run_", dir=os.environ.get("TMPDIR") or "/var/tmp")
    env = run_env()
    env["TMPDIR"] = td
    try:
        p = subprocess.run(cmd, input=text, stdout=subprocess.PIPE, stderr=subprocess.PIPE, text=True,
                           env=env, timeout=timeout, errors="replace")
        return p.stdout, p.stderr, p.returncode
    except subprocess.TimeoutExpired as e:
        so = e.stdout.decode(errors="replace") if isinstance(e.stdout, bytes) else (e.stdout or "")
        return so, "TIMEOUT", -9
    finally:
        shutil.rmtree(td, ignore_errors=True)


def split_records(out_text, cases):
    """Map tool output back to cases.  Returns list of record lists (without the `case` echo)."""
    recs = [[] for _ in cases]
    idx = -1
    names = [c.lines[0] for c in cases]
    for line in out_text.split("\n"):
        if line.startswith("case ") and idx + 1 < len(cases) and line == names[idx + 1]:
            idx += 1
            continue
        if idx >= 0 and (line != "" or False):
            recs[idx].append(line)
    return recs


def run_cases(cmd, cases, workers=None, timeout=600):
    """Run `cmd` over the cases split into chunks.  Returns (records per case, stderr snippets)."""
    if not cases:
        return [], []
    workers = workers or NCPU
    nchunks = min(len(cases), workers * 2)
    chunks = [cases[i::nchunks] for i in range(nchunks)]
    chunks = [c for c in chunks if c]

    def one(chunk):
        text = "\n".join("\n".join(c.lines) for c in chunk) + "\n"
        so, se, rc = _run_tool(cmd, text, timeout)
        return split_records(so, chunk), se, rc

    with ThreadPoolExecutor(max_workers=workers) as ex:
        results = list(ex.map(one, chunks))
    out = {}
    errs = []
    for chunk, (recs, se, rc) in zip(chunks, results):
        for c, r in zip(chunk, recs):
            out[id(c)] = r
        if se.strip():
            errs.append(se[-2000:])
        if rc not in (0,):
            errs.append("exit status %s of %s" % (rc, cmd[0]))
    return [out[id(c)] for c in cases], errs


def first_diff(a, b, proj=None):
    """index of the first differing record (after projection), or None."""
    n = max(len(a), len(b))
    for i in range(n):
        x = a[i] if i < len(a) else "<missing>"
        y = b[i] if i < len(b) else "<missing>"
        if proj:
            x, y = proj(i, x), proj(i, y)
        if x != y:
            return i
    return None


class Finding:
    def __init__(self, case, kind, idx, detail, impl=None, model=None, spec=None, name=None):
        self.case = case          # Case
        self.kind = kind          # 'judge' | 'divergence' | 'harness'
        self.idx = idx            # index of op line within case.body()
        self.detail = detail
        self.impl = impl
        self.model = model
        self.spec = spec
        self.name = name          # theorem / correspondence name
        self.signature = None
        self.group = None         # cross-case findings: the cases that together form the replay


def ddmin(lines, fixed_prefix, fails, budget=150):
    """Delta debugging on lines[fixed_prefix:]; `fails(list)->bool`."""
    head, body = lines[:fixed_prefix], lines[fixed_prefix:]
    n = 2
    runs = 0
    while len(body) >= 2 and runs < budget:
        chunk = max(1, len(body) // n)
        reduced = False
        for i in range(0, len(body), chunk):
            cand = body[:i] + body[i + chunk:]
            runs += 1
            if cand and fails(head + cand):
                body = cand
                n = max(n - 1, 2)
                reduced = True
                break
            if runs >= budget:
                break
        if not reduced:
            if chunk == 1:
                break
            n = min(len(body), n * 2)
    return head + body


def write_replay(prop, engine, finding, seed, extra=None):
    os.makedirs(REPLAY_DIR, exist_ok=True)
    h = hashlib.sha1(("\n".join(finding.case.lines) + finding.kind).encode()).hexdigest()[:10]
    path = os.path.join(REPLAY_DIR, "%s_%s_%s.json" % (prop, finding.kind, h))
    def clip(recs):
        # records are evidence for the reader, the replay is the case: keep huge ones short
        if recs is None:
            return None
        return [r if len(r) <= 20000 else r[:20000] + "...[%d more characters]" % (len(r) - 20000) for r in recs]

    doc = {
        "property": prop, "engine": engine, "kind": finding.kind, "seed": seed,
        "case": finding.case.lines, "failing_op_index": finding.idx, "detail": str(finding.detail)[:20000],
        "implementation_records": clip(finding.impl), "model_records": clip(finding.model), "spec_records": clip(finding.spec),
        "broken": finding.name, "signature": finding.signature,
        "how_to_replay": "python3 check.py %s --replay %s" % (prop, path),
    }
    if extra:
        doc.update(extra)
    with open(path, "w") as f:
        json.dump(doc, f, indent=1)
    return path


def load_known_findings(prop):
    if not os.path.exists(KNOWN_FINDINGS):
        return []
    doc = json.load(open(KNOWN_FINDINGS))
    return [e for e in doc.get("findings", []) if e.get("property") == prop]


def load_corpus(prop, engine):
    """corpus/<engine>/*.ops and corpus/<prop>/*.ops : files of `case` blocks."""
    cases = []
    for sub in (engine, prop):
        d = os.path.join(CORPUS_DIR, sub)
        if not os.path.isdir(d):
            continue
        for fn in sorted(os.listdir(d)):
            if not fn.endswith(".ops"):
                continue
            cur = None
            for line in open(os.path.join(d, fn), encoding="utf-8", errors="replace").read().split("\n"):
                if line.startswith("#tags ") and cur is not None:
                    cur.tags.update(json.loads(line[6:]))
                    continue
                if line.startswith("#"):
                    continue
                if line.startswith("case "):
                    if cur:
                        cases.append(cur)
                    cur = Case("corpus/%s/%s/%s" % (sub, fn, line[5:].strip()), [], origin="corpus")
                elif cur is not None and line != "":
                    cur.lines.append(line)
            if cur:
                cases.append(cur)
    return cases


def write_evidence(prop, tier, seed, lean, cov, assumptions, wall, violations, checker_cmd, trusted_base):
    evdir = EVIDENCE_DIR
    if os.path.realpath(repo()) != "/repo":
        # runs against a scratch copy (mutation testing) must not overwrite committed evidence
        evdir = os.path.join(os.environ.get("TMPDIR") or "/var/tmp", "iauthd_verif_scratch_evidence")
    os.makedirs(evdir, exist_ok=True)
    obligations = len(lean.theorems)
    discharged = sum(1 for th, ax in lean.theorems.items() if ax is not None and all(a in ALLOWED_AXIOMS for a in ax))
    coverage = {
        "obligations": obligations,
        "discharged": discharged,
        "checker_cmd": checker_cmd,
        "trusted_base": trusted_base,
        "theorems": {k: (v if v is not None else "MISSING") for k, v in lean.theorems.items()},
        "proof_problems": lean.problems,
    }
    coverage.update(cov)
    doc = {
        "property_id": prop, "tier": tier, "seed": seed, "level": "proof",
        "coverage": coverage, "assumptions": assumptions,
        "wall_s": round(wall, 2), "violations": violations,
    }
    with open(os.path.join(evdir, prop + ".json"), "w") as f:
        json.dump(doc, f, indent=1)


class Workdir:
    def __init__(self):
        base = os.environ.get("TMPDIR") or "/var/tmp"
        self.path = tempfile.mkdtemp(prefix="iauthd_verif_", dir=base)

    def __enter__(self):
        return self.path

    def __exit__(self, *a):
        shutil.rmtree(self.path, ignore_errors=True)


def rng_for(seed, salt):
    return random.Random((seed * 1000003) ^ (hash_str(salt) & 0xffffffff))


def hash_str(s):
    return int(hashlib.sha1(s.encode()).hexdigest()[:8], 16)
