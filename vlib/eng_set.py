"""Engine `Set`: src/set.c  <->  lean/Iauthd/Set  (property C19)."""
import os
import subprocess
from . import core
from .core import Case

NAME = "set"
DRIVER = "drv_set"


def build_harness(wd, prop):
    r = core.repo()
    srcs = [os.path.join(core.HARNESS_DIR, "h_set.c"), os.path.join(r, "src/set.c"), os.path.join(r, "src/common.c")]
    path, log = core.compile_c(wd, "h_set", srcs)
    if path is None:
        # the structural audit walks the nodes through the fields of struct set_node; a tree whose
        # representation was changed may not have them.  Everything C19 speaks about is still
        # observed through the public functions, so the check goes on without the audit.
        path2, log2 = core.compile_c(wd, "h_set", srcs, extra=["-DH_SET_NO_AUDIT"])
        if path2 is not None:
            return path2, ""
    return path, log


def harness_cmd(path, prop):
    return [path]


def model_args(prop):
    return ["model"]


def spec_args(prop):
    return ["spec"]


def header_len(case):
    return 2  # `case`, `cmp`


def projector(prop):
    return None  # every record is observable behaviour of the container


def spec_name(prop):
    return "Iauthd.Set.stepSpec (sorted-map reading of C19)"


def correspondence_name(prop):
    return "correspondence Set: src/set.c vs Iauthd.Set.stepModel on all records"


def theorems(prop):
    return [
        "Iauthd.Properties.C19",
        "Iauthd.Properties.C19_stock_comparators",
        "Iauthd.Properties.C19_map_laws",
        "Iauthd.Properties.C19_lower_bound",
        "Iauthd.Properties.C19_iteration",
        "Iauthd.Set.splay_inorder",
        "Iauthd.Set.splay_root_spec",
        "Iauthd.Set.inv_step",
        "Iauthd.Set.step_refines",
        "Iauthd.Set.C19_refinement",
        "Iauthd.Set.dispose_step",
        "Iauthd.Set.C19_dispose_once",
        "Iauthd.Set.reach_find_iff",
        "Iauthd.Set.reach_insert_find",
        "Iauthd.Set.reach_remove_find",
        "Iauthd.Set.cmpInt3_laws",
        "Iauthd.Set.cmpCharp_laws",
        "Iauthd.Set.cmpPtr_laws",
        "Iauthd.Set.cmpIntSub_not_lawful",
        "Drv.SetDrv.cmpOf_laws",
    ]


def lean_imports(prop):
    return ["Iauthd.Properties.C19", "Drv.SetMain"]


def lean_targets(prop):
    return lean_imports(prop) + [DRIVER]


def lean_modules(prop):
    return ["Iauthd.Set.Model", "Iauthd.Set.Spec", "Iauthd.Set.Proofs", "Iauthd.Set.Dispose", "Iauthd.Set.Comparators", "Iauthd.Set.MapLaws", "Iauthd.Properties.C19"]


def checker_cmd(prop):
    return "cd lean && lake build && lake env lean <(#print axioms …) ; thorough: lake env leanchecker <module>"


def trusted_base(prop):
    return ["Lean 4.33.0 kernel; axioms ⊆ {propext, Classical.choice, Quot.sound}",
            "Iauthd/Set/Model.lean is hand-written from src/set.c; tied by the sampled correspondence only",
            "harness/h_set.c, vlib/eng_set.py, gcc + ASan/UBSan",
            "pointer identity of nodes is modelled by comparator-equality under the container invariant"]


def assumptions(prop):
    return ["comparator is pure and satisfies CmpLaws (proved for the three stock comparators; set_compare_voidp and set_compare_ptr share one model)",
            "a node is never inserted while it is already in the set (set.c asserts this)",
            "keys of the charp comparator are NUL-terminated strings that outlive the element"]


def classify(prop, f):
    op = f.case.lines[1 + f.idx] if f.idx is not None and 1 + f.idx < len(f.case.lines) else "?"
    hdr = f.case.lines[1] if len(f.case.lines) > 1 else ""
    return "set:%s:%s" % (hdr.replace(" ", "-"), op.split(" ")[0])


# ---------------------------------------------------------------- generators

EXTREME = [-2147483648, -2147483647, -2, -1, 0, 1, 2, 2147483646, 2147483647, 1073741824, -1073741824]
WORDS = ["a", "A", "b", "B", "ab", "Ab", "aB", "abc", "", "z", "Z", "[", "`", "_", "a0", "A0", "\xe9", "\xff", "@"]


def _hex(s):
    b = s.encode("latin-1")
    return b.hex() if b else "="


def random_case(rng, name, kind, nkeys, nops):
    lines = ["cmp " + kind]
    if kind == "int":
        if rng.random() < 0.3:
            keys = [str(k) for k in rng.sample(EXTREME, min(nkeys, len(EXTREME)))]
        else:
            span = rng.choice([8, 64, 100000])
            keys = [str(rng.randint(-span, span)) for _ in range(nkeys)]
    elif kind == "charp":
        pool = WORDS + ["".join(rng.choice("aAbBzZ_[0") for _ in range(rng.randint(1, 4))) for _ in range(nkeys)]
        keys = [_hex(w) for w in rng.sample(pool, min(nkeys, len(pool)))]
    else:
        keys = [str(k) for k in rng.sample(range(256), min(nkeys, 256))]
    if rng.random() < 0.3:
        lines.append("probe 1")     # cleanups look themselves up during set_remove too (h_set.c)
    live = set()      # for ptr: avoid re-inserting a live node (assert in set.c) and disposal
    uid = 0
    for _ in range(nops):
        r = rng.random()
        k = rng.choice(keys)
        if r < 0.40:
            if kind == "ptr":
                if k in live:
                    continue
                live.add(k)
            uid += 1
            lines.append("I %s %d" % (k, uid))
        elif r < 0.52:
            lines.append("F " + k)
        elif r < 0.64:
            lines.append("L " + k)
        elif r < 0.80:
            nd = 1 if kind == "ptr" else rng.randint(0, 1)
            lines.append("R %s %d" % (k, nd))
            live.discard(k)
        elif r < 0.83:
            nd = 1 if kind == "ptr" else rng.randint(0, 1)
            lines.append("C %d" % nd)
            live.clear()
        elif r < 0.89:
            lines.append("W")
        elif r < 0.93:
            lines.append("B")
        elif r < 0.96:
            lines.append("S")
        else:
            lines.append("A")
    lines += ["W", "B", "S", "A", "C 1" if kind == "ptr" else "C 0"]
    return Case(name, lines, tags={"kind": kind})


def gen_cases(prop, tier, seed):
    rng = core.rng_for(seed, "set")
    cases = []
    n_random = 400 if tier == "quick" else 20000
    for i in range(n_random):
        kind = rng.choice(["int", "int", "charp", "voidp", "ptr"])
        nkeys = rng.choice([2, 4, 7, 16, 60])
        nops = rng.choice([10, 30, 80]) if tier == "quick" else rng.choice([10, 40, 200, 1000])
        cases.append(random_case(rng, "rnd/%d" % i, kind, nkeys, nops))
    # small-scope exhaustive exploration of reachable tree shapes (from the model driver)
    nk = 4 if tier == "quick" else 6
    out = subprocess.run([core.drv_path(DRIVER), "enum", str(nk)], stdin=subprocess.DEVNULL,
                         stdout=subprocess.PIPE, text=True, timeout=600).stdout
    cur = None
    for line in out.split("\n"):
        if line.startswith("case "):
            if cur:
                cases.append(cur)
            cur = Case(line[5:], [], tags={"kind": "int", "enum": True})
        elif cur is not None and line:
            cur.lines.append(line)
    if cur:
        cases.append(cur)
    return cases


def coverage(prop, tier, cases, impl, model, spec):
    ops = {}
    kinds = {}
    distinct = set()
    nontrivial = 0
    for c, ir in zip(cases, impl):
        k = c.key()
        if k in distinct:
            continue
        distinct.add(k)
        for l in c.lines[2:]:
            ops[l[:1]] = ops.get(l[:1], 0) + 1
        kinds[c.lines[1]] = kinds.get(c.lines[1], 0) + 1
        # non-trivial: at least one replacement or successful removal and a non-empty walk
        if any(r.startswith("rem 1") or (r.startswith("ins d=") and len(r) > 6) for r in ir) and \
           any(r.startswith("walk ") and len(r) > 5 for r in ir):
            nontrivial += 1
    enum_n = sum(1 for c in cases if c.tags.get("enum"))
    return {
        "evaluations": len(cases),
        "distinct_nontrivial": nontrivial,
        "rule": "random op sequences per stock comparator (int incl. INT_MIN/INT_MAX, charp mixed case and high bytes, voidp, ptr) "
                "plus every (reachable model tree shape over %s keys, next op) pair from the breadth-first enumerator; "
                "non-trivial = distinct op file with a replacement or successful removal and a non-empty iteration" % ("4" if tier == "quick" else "6"),
        "samples": [c.lines for c in cases[:2]] + [c.lines for c in cases[-1:]],
        "op_histogram": ops, "comparators": kinds,
        "enumerated_state_op_pairs": enum_n, "exhaustive": False,
        "traces_validated_against_impl": len(cases),
    }
