"""Engine `Module`: src/module.c  <->  lean/Iauthd/Module  (property C20).

One op per case (DESIGN.md Appendix A):
    graph <m:dep,dep;m2:...|-> bad=<m,...> list=<m,...> [list=<m,...> ...]
 -> status <n|sigN> why=<-|loop:a>b|unloadable:m> events <ctor-begin:m|ctor-end:m|post-init:m|dtor:m> ...

The harness runs the repository's module.c against stub shared objects (one per pool
name, built once per check run); the Lean driver runs the model (`model`) and
evaluates the C20 checker on the implementation's record (`judge`).
"""
import itertools
import os
import re
import subprocess
from concurrent.futures import ThreadPoolExecutor
from . import core
from .core import Case

NAME = "module"
DRIVER = "drv_module"

# Pairwise distinct under strcasecmp; strcasecmp order differs from strcmp order
# (upper case and '_' sort differently), and that order drives the post-init walk.
POOL = ["a", "B", "c", "D", "e", "F", "Gg", "h_", "_i", "J0"]
REPO_SOURCES = ["src/module.c", "src/log.c", "src/config.c", "src/set.c", "src/common.c",
                "src/bitset.c", "src/accumulators.c"]


def _build_stub(args):
    src, out, name = args
    cmd = ["gcc", "-shared", "-fPIC", "-O1", "-g", "-Wall", "-DSTUB_NAME=\"%s\"" % name, src, "-o", out]
    if out.endswith(".nh.so"):
        cmd.insert(1, "-DSTUB_NO_POST_INIT")
    p = subprocess.run(cmd, stdout=subprocess.PIPE, stderr=subprocess.STDOUT, text=True)
    return p.returncode, " ".join(cmd) + "\n" + p.stdout


def build_harness(wd, prop):
    r = core.repo()
    stubs = os.path.join(wd, "stubs")
    os.makedirs(stubs, exist_ok=True)
    src = os.path.join(core.HARNESS_DIR, "stub_module.c")
    jobs = [(src, os.path.join(stubs, n + ".so"), n) for n in POOL] + \
           [(src, os.path.join(stubs, n + ".nh.so"), n) for n in POOL]
    with ThreadPoolExecutor(max_workers=core.NCPU) as ex:
        fut = ex.submit(core.compile_c, wd, "h_module",
                        [os.path.join(core.HARNESS_DIR, "h_module.c")] + [os.path.join(r, s) for s in REPO_SOURCES],
                        None, True, ["-rdynamic", "-ldl", "-levent", "-lm"])
        res = list(ex.map(_build_stub, jobs))
        path, hlog = fut.result()
    bad = [lg for rc, lg in res if rc != 0]
    if bad:
        return None, "stub module does not build:\n" + "\n".join(bad)[-3000:]
    return path, hlog


def harness_cmd(path, prop):
    # --nofork: h_module.c itself runs the daemon code of every op in a child process
    return [path, "--nofork", "--stubs=" + os.path.join(os.path.dirname(path), "stubs")]


def model_args(prop):
    # VERIF_MODULE_MODEL=pinned compares against `module_dfs` as pinned (development aid)
    if os.environ.get("VERIF_MODULE_MODEL") == "pinned":
        return ["model", "pinned"]
    return ["model"]


def spec_args(prop):
    return "trace"


def run_trace_judge(prop, cases, impl):
    """Evaluate Iauthd.Module.judge (compiled into the driver) on the implementation's records."""
    synth = []
    for c, ir in zip(cases, impl):
        lines = []
        for i, op in enumerate(c.body()):
            lines.append(op)
            obs = ir[i] if i < len(ir) else "<missing>"
            # the raw text of what log.c printed is for the comparison with the model only
            obs = " ".join(x for x in obs.split(" ") if not x.startswith("said="))
            lines.append("obs " + obs)
        sc = Case(c.name, lines)
        synth.append(sc)
    recs, _errs = core.run_cases([core.drv_path(DRIVER), "judge"], synth)
    return [r[1::2] for r in recs]


def judge(prop, case, impl_records, spec_records):
    if spec_records is None:
        return False
    for i, v in enumerate(spec_records):
        ir = impl_records[i] if i < len(impl_records) else "<missing>"
        if v == "ok":
            continue
        if v == "bad-op" and ir.startswith("bad-op"):
            continue
        return (i, "implementation %r: %s" % (ir, v))
    if len(spec_records) < len(case.body()):
        return (len(spec_records), "no verdict")
    return False


def header_len(case):
    return 1


NAME_WORD = re.compile(rb"[A-Za-z0-9_]+")


def case_projector(prop, case):
    """model vs code: exit status, the modules the fatal message names (in order of first mention),
    the full event log.  The wording of the message is not compared: the implementation's record
    carries what log.c printed (`said=`), the model's its classification (`why=loop:a>b` /
    `unloadable:m`), and both are reduced to the list of module names of the case's graph."""
    names = set()
    for op in case.body():
        f = op.split(" ")
        if f and f[0] == "graph" and len(f) > 1:
            for part in f[1].split(";"):
                m, _, deps = part.partition(":")
                names.update(x for x in [m] + deps.split(",") if x and x != "-")
            for fld in f[2:]:
                k, _, v = fld.partition("=")
                if k in ("bad", "list", "nohook"):
                    names.update(x for x in v.split(",") if x)
    bnames = set(n.encode() for n in names)

    def proj(i, rec):
        if not isinstance(rec, str):
            return rec
        if rec.startswith("bad-op"):
            return "bad-op"
        f = rec.split(" ")
        if not f or f[0] != "status":
            return rec
        why = next((x[4:] for x in f if x.startswith("why=")), "-")
        said = next((x[5:] for x in f if x.startswith("said=")), None)
        if said is not None:          # implementation
            text = b"" if said in ("", "=") else bytes.fromhex(said)
            # the first line only: a fatal message ends the process, and dlerror()'s own text
            # (paths) follows the module name on the same line after a colon
            first = text.split(b"\n")[0]
            seen = []
            for w in NAME_WORD.findall(first.split(b": /")[0]):
                if w in bnames and w.decode() not in seen:
                    seen.append(w.decode())
            mention = seen if why != "-" else []
        else:                         # model
            if why.startswith("loop:"):
                mention = why[5:].split(">")
            elif why.startswith("unloadable:"):
                mention = [why[11:]]
            else:
                mention = []
        ev = f[f.index("events"):] if "events" in f else []
        return (f[1], "fatal" if why != "-" else "-", tuple(mention), tuple(ev))
    return proj


def projector(prop):
    def proj(i, rec):
        return "bad-op" if rec.startswith("bad-op") else rec
    return proj


def spec_name(prop):
    return "Iauthd.Module.judgeH (checker reading of C20 on the observed exit status and event log; post-init order read transitively through hook-less modules)"


def correspondence_name(prop):
    return "correspondence Module: src/module.c + stub modules vs Iauthd.Module.runLists (exit status, fatal message, full event log)"


def theorems(prop):
    return THEOREMS


THEOREMS = [
    # acyclic graphs (no bound on size), repaired module_dfs
    "Iauthd.Properties.C20.ctor_once",
    "Iauthd.Properties.C20.deps_before_ctor_end",
    "Iauthd.Properties.C20.postinit_once_after_deps",
    "Iauthd.Properties.C20.dtor_before_deps",
    "Iauthd.Properties.C20.C20_acyclic",
    # every graph
    "Iauthd.Properties.C20.cycle_aborts",
    "Iauthd.Properties.C20.unloadable_aborts",
    "Iauthd.Properties.C20.success_only_if_clean",
    "Iauthd.Properties.C20.fuel_suffices",
    "Iauthd.Properties.C20.C20_judge",
    "Iauthd.Properties.C20.judge_demand_exact",
    # modules without a post-init hook (optional per README): hook-aware judge, transitive order
    "Iauthd.Properties.C20.C20_judge_hookless",
    "Iauthd.Properties.C20.hookless_pruned_walk_fails_judge",
    "Iauthd.Module.judgeH_of_judge",
    "Iauthd.Module.woH_hide",
    # the pinned module_dfs fails (F20), checked by `decide`
    "Iauthd.Properties.C20.pinned_diamond_aborts",
    "Iauthd.Properties.C20.pinned_triangle_aborts",
    "Iauthd.Properties.C20.pinned_fails_judge",
    # the lemmas the above rest on
    "Iauthd.Module.load_spec",
    "Iauthd.Module.loadAll_spec",
    "Iauthd.Module.dfsFixed_spec",
    "Iauthd.Module.postInitPhase_spec",
    "Iauthd.Module.closeAll_acyclic",
    "Iauthd.Module.exitChain_why",
    "Iauthd.Module.run_acyclic",
    "Iauthd.Module.run_any",
    "Iauthd.Module.mustAbort_iff",
]


def lean_imports(prop):
    return ["Iauthd.Properties.C20"]


def lean_targets(prop):
    return lean_imports(prop) + [DRIVER]


def lean_modules(prop):
    return ["Iauthd.Module.Model", "Iauthd.Module.Spec", "Iauthd.Module.ProofsBasic", "Iauthd.Module.ProofsLoad",
            "Iauthd.Module.ProofsDfs", "Iauthd.Module.ProofsClose", "Iauthd.Module.ProofsSpec",
            "Iauthd.Module.Proofs", "Iauthd.Module.ProofsHook", "Iauthd.Properties.C20"]


def checker_cmd(prop):
    return "cd lean && lake build Iauthd.Properties.C20 && lake env lean <(#print axioms …) ; thorough: lake env leanchecker <module>"


def trusted_base(prop):
    return ["Lean 4.33.0 kernel; axioms ⊆ {propext, Classical.choice, Quot.sound}",
            "Iauthd/Module/Model.lean is hand-written from src/module.c, const_string_vector_remove and the exit path of src/main.c; tied by the sampled correspondence only",
            "harness/h_module.c plays main.c (atexit chain, module_load_list, exit); harness/stub_module.c stands for real modules",
            "dlopen/dlsym/dlclose, atexit and _exit behave as documented (runtime facet; not modelled beyond 'a name is loadable or not')",
            "vlib/eng_module.py, gcc + ASan/UBSan"]


def assumptions(prop):
    return ["a module declares its dependencies only through module_depends from its constructor (no module_antidepends, no module_is_backend: neither the stubs nor the shipped modules call them)",
            "module names are pairwise distinct under strcasecmp and every reference spells a name identically (the set compares case-insensitively, dlopen does not)",
            "main() calls module_load_list once; cases with several list= fields explore repeated calls for the correspondence only",
            "the graph is finite: the theorems take a finite universe of names closed under G and fuel larger than it"]


def classify(prop, f):
    txt = str(f.detail)
    for key, sig in (("acyclic loadable graph but start-up aborted", "acyclic-graph-aborted"),
                     ("start-up succeeded although", "abort-missing"),
                     ("post-init of a module that lies on a dependency cycle", "post-init-on-cycle"),
                     ("event out of order or repeated", "event-order"),
                     ("was not constructed, or a constructed module lacks", "incomplete-life-cycle"),
                     ("unloadable module was constructed", "unloadable-constructed"),
                     ("no status record", "no-status"),
                     ("unparsable event", "bad-event")):
        if key in txt:
            return "module:" + sig
    return "module:other"


# ---------------------------------------------------------------- generators

def fmt_case(name, graph, bad, lists, tags=None, nohook=()):
    """graph: list of (module, [deps]) in any order; lists: list of lists; nohook: modules built
    without a module_post_init hook."""
    g = ";".join("%s:%s" % (m, ",".join(ds)) for m, ds in graph) or "-"
    line = "graph %s bad=%s %s%s" % (g, ",".join(bad), ("nohook=%s " % ",".join(nohook)) if nohook else "",
                                     " ".join("list=" + ",".join(l) for l in lists))
    return Case(name, [line], tags=tags or {})


def _ordered_subsets(items):
    """all duplicate-free sequences over items (including the empty one), shortest first"""
    out = []
    for k in range(len(items) + 1):
        out.extend(itertools.permutations(items, k))
    return out


def enum_cases(n, names, prefix, dep_orders, self_loops=True):
    """all digraphs on n labelled nodes x all listing orders of all non-empty subsets.
    dep_orders: 'all' = every order of every dependency list, 'two' = ascending and descending."""
    nodes = list(range(n))
    per_node = []
    for v in nodes:
        cand = [w for w in nodes if self_loops or w != v]
        opts = []
        if dep_orders == "all":
            opts = [list(p) for p in _ordered_subsets(cand)]
        else:
            for k in range(len(cand) + 1):
                for sub in itertools.combinations(cand, k):
                    opts.append(list(sub))
                    if dep_orders == "two" and k >= 2:
                        opts.append(list(reversed(sub)))
        per_node.append(opts)
    lists = [list(p) for p in _ordered_subsets(nodes) if p]
    graphs = list(itertools.product(*per_node))
    graphs.sort(key=lambda g: sum(len(d) for d in g))       # fewest edges first: first failure is small
    cases = []
    for gi, g in enumerate(graphs):
        graph = [(names[v], [names[w] for w in g[v]]) for v in nodes if g[v]]
        for li, l in enumerate(lists):
            cases.append(fmt_case("%s/n%d/g%d/l%d" % (prefix, n, gi, li), graph, [], [[names[v] for v in l]],
                                  tags={"enum": True, "n": n}))
    return cases


def random_graph(rng, n, names, kind):
    """kind: dag | cyclic | any"""
    order = list(range(n))
    rng.shuffle(order)                       # topological order of the DAG part
    p = rng.choice([0.2, 0.35, 0.5, 0.8])
    deps = {v: [] for v in range(n)}
    for i, v in enumerate(order):
        for w in order[i + 1:]:
            if rng.random() < p:
                deps[v].append(w)
    if kind in ("cyclic", "any"):
        nback = 1 if kind == "cyclic" else rng.choice([0, 0, 1])
        for _ in range(nback + (rng.random() < 0.3)):
            i = rng.randrange(n)
            j = rng.randrange(i + 1) if rng.random() < 0.8 else i
            deps[order[i]].append(order[j])  # back edge or self loop
    for v in deps:
        rng.shuffle(deps[v])
        if deps[v] and rng.random() < 0.08:   # the same dependency declared twice
            deps[v].insert(rng.randrange(len(deps[v]) + 1), rng.choice(deps[v]))
    return [(names[v], [names[w] for w in deps[v]]) for v in range(n) if deps[v]]


def random_case(rng, name, kind, n=None):
    n = n or rng.choice([5, 5, 6, 6, 4, 7])
    names = rng.sample(POOL, n)
    graph = random_graph(rng, n, names, kind)
    k = rng.choice([1, 1, 2, 2, 3, n])
    lst = rng.sample(names, min(k, n))
    if rng.random() < 0.1:
        lst.append(rng.choice(lst))          # a module listed twice
    bad = []
    if kind == "bad" or rng.random() < 0.05:
        bad = rng.sample(names, rng.choice([1, 1, 2]))
    lists = [lst]
    tags = {"kind": kind, "n": n}
    if rng.random() < 0.06:                  # a second module_load_list call (exploration only)
        lists.append(rng.sample(names, rng.choice([1, 2])))
        tags["two_lists"] = True
    nohook = []
    if rng.random() < 0.4:                   # the post-init hook is optional (README)
        nohook = [m for m in names if rng.random() < rng.choice([0.2, 0.5, 0.9])]
        tags["nohook"] = len(nohook)
    return fmt_case(name, graph, bad, lists, tags=tags, nohook=nohook)


def nohook_variants(cases, rng, per_case=1):
    """copies of enumerated cases in which some (or all) modules lack the post-init hook"""
    out = []
    for c in cases:
        m = _OP.match(c.lines[-1])
        if not m:
            continue
        names = sorted(set(re.findall(r"[A-Za-z0-9_]+", m.group(1) + " " + m.group(4).replace("list=", " "))))
        if not names:
            continue
        for k in range(per_case):
            sub = [n for n in names if rng.random() < 0.5] or [rng.choice(names)]
            line = "graph %s bad=%s nohook=%s %s" % (m.group(1), m.group(2), ",".join(sub), m.group(4))
            out.append(Case(c.name + "/nh%d" % k, [line], tags=dict(c.tags, nohook=len(sub))))
    return out


MALFORMED = [
    "graph",
    "grap a:b bad= list=a",
    "graph a:B bad= list=a extra=1",
    "graph a:B;B:c lst=a",
    "load a",
    "graph a:B bad list=a",
]


def gen_cases(prop, tier, seed):
    rng = core.rng_for(seed, "module")
    cases = []
    # hand-sized shapes first (so that a failure is reported on a small graph)
    perm = POOL[:]
    rng.shuffle(perm)
    maps = [POOL[:4], perm[:4]]
    if tier == "quick":
        for mi, names in enumerate(maps[:2]):
            for n in (1, 2):
                cases += enum_cases(n, names, "enum%d" % mi, "all")
        cases += enum_cases(3, maps[0], "enum0", "two")
        cases += enum_cases(3, maps[1], "enum1", "asc", self_loops=False)
        cases += nohook_variants([c for c in cases if c.tags.get("n", 0) <= 2], rng, 2)
        cases += nohook_variants(rng.sample([c for c in cases if c.tags.get("n") == 3 and "nohook" not in c.tags], 3000), rng, 1)
        n_random = 1500
    else:
        for mi, names in enumerate(maps[:2]):
            for n in (1, 2):
                cases += enum_cases(n, names, "enum%d" % mi, "all")
        cases += enum_cases(3, maps[0], "enum0", "all")
        cases += enum_cases(3, maps[1], "enum1", "two")
        # all loop-free digraphs on 4 labelled nodes x all 64 listings
        cases += enum_cases(4, maps[1], "enum1", "asc", self_loops=False)
        cases += nohook_variants([c for c in cases if c.tags.get("n", 0) <= 3], rng, 2)
        n_random = 20000
    for i in range(n_random):
        kind = rng.choice(["dag", "dag", "dag", "cyclic", "cyclic", "any", "bad"])
        cases.append(random_case(rng, "rnd/%d" % i, kind))
    for i, l in enumerate(MALFORMED):
        cases.append(Case("malformed/%d" % i, [l], tags={"kind": "malformed"}))
    return cases


def search_cases(prop, finding, seed):
    rng = core.rng_for(seed, "module-search")
    return [random_case(rng, "search/%d" % i, rng.choice(["dag", "cyclic", "any", "bad"])) for i in range(15000)]


# ---------------------------------------------------------------- coverage (measured)

_OP = re.compile(r"^graph (\S+) bad=(\S*) (?:nohook=(\S*) )?(.*)$")


def _parse(line):
    m = _OP.match(line)
    if not m:
        return None
    g = {}
    if m.group(1) != "-":
        for ent in m.group(1).split(";"):
            if ":" in ent:
                k, ds = ent.split(":", 1)
                g[k] = [d for d in ds.split(",") if d]
    bad = set(x for x in m.group(2).split(",") if x)
    lists = [[x for x in f[5:].split(",") if x] for f in m.group(4).split() if f.startswith("list=")]
    return g, bad, lists


def _shape(g, bad, lists):
    """(class, two_paths) of the part reachable from the lists"""
    reach, stack = [], [x for l in lists for x in l]
    while stack:
        v = stack.pop()
        if v in reach:
            continue
        reach.append(v)
        stack.extend(g.get(v, []))
    if any(v in bad for v in reach):
        return "unloadable", False
    color = {}

    def cyc(v):
        color[v] = 1
        for w in g.get(v, []):
            if color.get(w) == 1 or (color.get(w) is None and cyc(w)):
                return True
        color[v] = 2
        return False

    for v in reach:
        if color.get(v) is None and cyc(v):
            return "cyclic", False
    npaths = {}

    def paths(v):
        if v not in npaths:
            npaths[v] = 0
            npaths[v] = sum(1 + paths(w) for w in g.get(v, []))
        return npaths[v]
    # a node reachable along two paths from one start: more paths than distinct descendants
    def desc(v, seen):
        for w in g.get(v, []):
            if w not in seen:
                seen.add(w)
                desc(w, seen)
        return seen
    two = any(paths(v) > len(desc(v, set())) for v in reach)
    return "acyclic", two


def coverage(prop, tier, cases, impl, model, spec):
    shapes, status, sizes, whys = {}, {}, {}, {}
    distinct = set()
    nontrivial = 0
    two_paths = 0
    for c, ir in zip(cases, impl):
        k = c.key()
        if k in distinct:
            continue
        distinct.add(k)
        p = _parse(c.lines[1]) if len(c.lines) > 1 else None
        if not p:
            shapes["malformed"] = shapes.get("malformed", 0) + 1
            continue
        cls, two = _shape(*p)
        shapes[cls] = shapes.get(cls, 0) + 1
        two_paths += 1 if two else 0
        nn = len(set(p[0]) | set(d for ds in p[0].values() for d in ds) | set(x for l in p[2] for x in l))
        sizes[nn] = sizes.get(nn, 0) + 1
        rec = ir[0] if ir else "<none>"
        f = rec.split(" ")
        st = f[1] if len(f) > 1 and f[0] == "status" else rec[:20]
        status[st] = status.get(st, 0) + 1
        w = f[2].split(":")[0] if len(f) > 2 else "?"
        whys[w] = whys.get(w, 0) + 1
        if sum(len(d) for d in p[0].values()) >= 2 and "dtor:" in rec:
            nontrivial += 1
    return {
        "evaluations": len(cases),
        "distinct_nontrivial": nontrivial,
        "rule": "every digraph on <= %s labelled stub modules x every listing order of every non-empty subset, "
                "random DAGs / graphs with back edges or self loops / unloadable names on 4-7 modules (duplicate "
                "declarations, modules listed twice, occasionally a second module_load_list call), a malformed-op stream; "
                "non-trivial = distinct case with at least two dependency edges whose run reached the destructors"
                % ("3 (with 2 name maps; dependency lists in both orders)" if tier == "quick"
                   else "3 (all dependency-list orders) and every loop-free digraph on 4"),
        "samples": [c.lines for c in cases[:1]] + [c.lines for c in cases if c.name.startswith("rnd/")][:2],
        "shape_histogram": shapes, "acyclic_with_two_paths": two_paths,
        "module_count_histogram": {str(k): v for k, v in sorted(sizes.items())},
        "impl_status_histogram": status, "impl_fatal_histogram": whys,
        "enumerated_cases": sum(1 for c in cases if c.tags.get("enum")), "exhaustive": tier != "quick",
        "traces_validated_against_impl": len(cases),
        "runtime_facets": ["dlopen/dlsym resolution, the atexit chain and exit statuses are exercised by the harness (real module.c + real shared objects); no theorem speaks about them"],
    }
