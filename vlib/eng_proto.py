"""Engine `Proto`: modules/iauth_core.c + iauth_xquery.c + iauth_class.c + iauth_misc.c
<-> lean/Iauthd/Proto  (properties C01-C11, C17)."""
import os
import random
import re
import subprocess
from . import core
from . import tagres
from .core import Case

NAME = "proto"
DRIVER = "drv_proto"

# ------------------------------------------------------------------ build

def _mod(f, name):
    return (os.path.join(core.repo(), "modules", f),
            ["-Dmodule_constructor=%s_ctor" % name, "-Dmodule_destructor=%s_dtor" % name])


def build_plain_harness(wd, prop):
    """the same harness without sanitizers (used only to see what the shipped program goes on to
    do on an input where the sanitized one was stopped)"""
    return build_harness(wd, prop, sanitize=False)


def build_harness(wd, prop, sanitize=True):
    r = core.repo()
    srcs = [os.path.join(core.HARNESS_DIR, "h_proto.c"), _mod("iauth_core.c", "iauth"),
            # `ntohs(x) << 16` / `part << (24 - 8*dots)` shift into or past the sign bit of int:
            # benign on every supported target and outside the properties' wording (DESIGN F23)
            (os.path.join(r, "modules/iauth_misc.c"), ["-fno-sanitize=shift"]),
            _mod("iauth_xquery.c", "iauth_xquery"),
            _mod("iauth_class.c", "iauth_class")]
    for f in ["config.c", "log.c", "set.c", "common.c", "bitset.c", "accumulators.c", "git-version.c"]:
        srcs.append(os.path.join(r, "src", f))
    path, log = core.compile_c(wd, "h_proto" if sanitize else "h_proto_plain", srcs, sanitize=sanitize,
                               libs=["-levent", "-lm", "-Wl,--wrap=event_new,--wrap=event_free,--wrap=event_base_once,--wrap=malloc,--wrap=event_assign,--wrap=event_del"])
    if path:
        os.makedirs(os.path.join(wd, "run"), exist_ok=True)
    return path, log


def build_e2e(wd):
    """the real program: src/*.c -> iauthd-c (with main.c and module.c), modules -> .so, same sanitizers"""
    r = core.repo()
    out = os.path.join(wd, "e2e")
    os.makedirs(os.path.join(out, "mods"), exist_ok=True)
    os.makedirs(os.path.join(wd, "e2e_run"), exist_ok=True)
    defs = ['-DSYSCONFDIR="/nonexistent"', '-DMODULESDIR="%s/mods"' % out, '-DLOGDIR="%s"' % os.path.join(wd, "e2e_run")]
    srcs = [os.path.join(r, "src", f) for f in sorted(os.listdir(os.path.join(r, "src"))) if f.endswith(".c")]
    path, log = core.compile_c(out, "iauthd-c", srcs, extra=defs, libs=["-levent", "-ldl", "-lm", "-rdynamic"])
    if not path:
        return None, log
    flags = core.BASE_CFLAGS + core.SAN_FLAGS + core.include_flags(wd) + defs + ["-fPIC", "-shared"]
    for so, files in (("iauth.so", ["iauth_core.c", "iauth_misc.c"]), ("iauth_xquery.so", ["iauth_xquery.c"]), ("iauth_class.so", ["iauth_class.c"])):
        cmd = ["gcc"] + flags + ["-fno-sanitize=shift"] + [os.path.join(r, "modules", f) for f in files] + ["-o", os.path.join(out, "mods", so)]
        p = subprocess.run(cmd, stdout=subprocess.PIPE, stderr=subprocess.STDOUT, text=True)
        if p.returncode != 0:
            return None, " ".join(cmd) + "\n" + p.stdout[-3000:]
    return out, ""


def e2e_cmd(bindir, wd):
    return ["/bin/sh", "-c", "cd %s/e2e_run && exec python3 %s %s" % (wd, os.path.join(core.HARNESS_DIR, "e2e_driver.py"), bindir)]


def e2e_cases(prop, tier, seed):
    global SPLIT_LONG
    SPLIT_LONG = True
    try:
        return _e2e_cases(prop, tier, seed)
    finally:
        SPLIT_LONG = False


def _e2e_cases(prop, tier, seed):
    """scenarios for the real program: no info requests of their own (the marker is one), timeouts
    by real elapsing time (timeout 1 second), reloads by SIGUSR1"""
    rng = core.rng_for(seed, "proto-e2e-" + prop)
    n = 24 if tier == "quick" else 400
    cases = []
    for i in range(n):
        mods = rng.choice(["core", "xquery", "class"])
        if prop in ("C05", "C06"):
            mods = rng.choice(["xquery", "xquery", "class"])
        if prop == "C11":
            mods = "class"
        cfg = rand_cfg(rng, mods, timeout=rng.choice([0, 0, 0, 1]))
        if prop == "C09":
            cfg.logs = rng.choice(LOGS_SECTIONS)
        ids = rng.sample([1, 2, 5, 7, 300], rng.choice([1, 2, 3]))
        scripts = {cid: [e for e in client_script(rng, cid, cfg, mods) if e[0] != "timeout"] for cid in ids}
        ops = render_schedule(rng, scripts)
        if cfg.timeout and rng.random() < 0.7:
            ops.insert(rng.randint(1, len(ops)), "elapse")
        if prop in ("C17", "C09") or rng.random() < 0.3:
            new = mutate_cfg(rng, cfg, mods)
            new.logs = cfg.logs
            pos = rng.randint(0, len(ops))
            if prop == "C09" and rng.random() < 0.5:
                ops.insert(pos, "reload %s bad=1" % hx(rng.choice(BROKEN_CONFS)))
            else:
                ops.insert(pos, new.op("reload"))
                probe = {cid: [e for e in client_script(rng, cid, new, mods) if e[0] != "timeout"] for cid in rng.sample([11, 12], 1)}
                ops += render_schedule(rng, probe)
        if rng.random() < 0.3:
            ops.insert(rng.randint(0, len(ops)), inl(rng.choice([m for m in MALFORMED if not m.startswith(b"-1 ?")])))
        cases.append(Case("e2e/%d" % i, header(mods, cfg) + heal_splits(ops) + ["eof"], tags={"mods": mods, "e2e": True}))
    # a verdict decided by the timer alone (seeded change C01-13 flushed stdout only after input
    # batches: the timer's verdict sat in stdio's buffer until the server's next line, which may
    # be the withdrawal of that id or its re-announcement): complete client held softly by a
    # silent service, real time passes, then the id is withdrawn and announced again
    for k, svc in enumerate(["dronecheck", "login-ipr"]):
        cfg = Cfg(timeout=1, services=[("drone.srv", svc)])
        cid = [9, 300][k]
        ops = [inl("%d C 192.0.2.9 4242 0::1 6667" % cid), inl("%d N host.example" % cid), inl("%d u ident" % cid),
               inl("%d n nick" % cid), inl("%d U user :real name" % cid), "elapse", inl("%d D" % cid),
               inl("%d C 192.0.2.10 4243 0::1 6667" % cid), inl("%d N other.example" % cid), "elapse", inl("%d D" % cid)]
        cases.append(Case("e2e/timer%d" % k, header("xquery", cfg) + ops + ["eof"], tags={"mods": "xquery", "e2e": True}))
    return cases


def heal_splits(ops):
    """the two parts of a line delivered in two reads stay next to each other: the real program is
    synchronised by a marker line after each op, which cannot be sent into an unfinished line"""
    ops = list(ops)
    i = 0
    while i < len(ops):
        f = ops[i].split(" ")
        if f[0] == "in" and len(f) >= 2 and not unhx(f[1]).endswith(b"\n"):
            j = i + 1
            while j < len(ops) and not ops[j].startswith("in "):
                j += 1
            if j < len(ops) and j != i + 1:
                ops.insert(i + 1, ops.pop(j))
        i += 1
    return ops


def _e2e_projector():
    def proj(i, rec):
        return e2e_canon(rec)
    proj.for_case = lambda case: (lambda i, rec, n=data_words(case): e2e_canon(rec, n))
    return proj


def e2e_canon(rec, names=None):
    """the e2e driver cannot know rc / fired / timer counts: compare what it can see"""
    cr = canon_record(rec, names)
    if cr[0] == "out":
        # several timers due in one `elapse`: libevent's heap is keyed by a coarse clock, equal
        # expiries pop in heap order; the model fires in table order — compare as multisets
        late = [x for x in cr[2] if x.startswith("late=")]
        if late:
            # the driver saw these bytes only after it sent the next input line: a verdict decided
            # by a timer was held back (never equal to a model record)
            return ("out", tuple(sorted(cr[1])), "written-only-after-the-next-input-line", late[0])
        if any(x.startswith("fired=") for x in cr[2]):
            return ("out", tuple(sorted(cr[1])))
        return ("out", cr[1])
    if cr[0] == "rc":
        return ("out", cr[2])
    if cr[0] == "exit":
        return ("exit", cr[1])
    return cr


E2E_PROPS = {"C01", "C02", "C03", "C05", "C06", "C08", "C09", "C10", "C11", "C17"}


def extra_runs(prop, tier, seed, wd):
    if prop not in E2E_PROPS:
        return []
    bindir, log = build_e2e(wd)
    if not bindir:
        return [{"name": "e2e (real program)", "error": "the real program does not build: " + log[-1500:]}]
    return [{"name": "e2e: real main.c/module.c, dlopen'ed modules, pipes, libevent timers, SIGUSR1",
             "cmd": e2e_cmd(bindir, wd), "cases": e2e_cases(prop, tier, seed),
             "projector": _e2e_projector(), "workers": 12}]


def harness_cmd(path, prop):
    # the harness creates its per-case scratch directories under its cwd
    return ["/bin/sh", "-c", "cd %s/run && exec %s" % (os.path.dirname(path), path)]


def version_line():
    """translator for the two constants of the banner (PACKAGE_NAME, iauthd_version)"""
    r = core.repo()
    name, ver = "iauthd-c", "iauthd-git"
    for p in (os.path.join(r, "autoconf.h"), os.path.join(core.HARNESS_DIR, "autoconf.fallback.h")):
        if os.path.exists(p):
            m = re.search(r'#define\s+PACKAGE_NAME\s+"([^"]*)"', open(p).read())
            if m:
                name = m.group(1)
                break
    try:
        m = re.search(r'iauthd_version\[\]\s*=\s*"([^"]*)"', open(os.path.join(r, "src/git-version.c")).read())
        if m:
            ver = m.group(1)
    except OSError:
        pass
    return hx(name + " " + ver)


LIMIT_NAMES = {"NICKLEN": "nick", "USERLEN": "user", "HOSTLEN": "host", "REALLEN": "real", "ACCOUNTLEN": "account", "CLASSLEN": "class"}


def limits_arg():
    """translator for the length limits of modules/iauth.h: the model is parametric in them, so a
    changed limit re-checks instead of alarming"""
    vals = {}
    try:
        txt = open(os.path.join(core.repo(), "modules/iauth.h")).read()
        for cname, key in LIMIT_NAMES.items():
            m = re.search(r"#define\s+%s\s+(\d+)" % cname, txt)
            if m:
                vals[key] = int(m.group(1))
    except OSError:
        pass
    return ",".join("%s=%d" % kv for kv in sorted(vals.items()))


def model_args(prop):
    return ["model", "--version", version_line(), "--limits", limits_arg()]


def spec_args(prop):
    return "trace" if prop in TRACE_PROPS else None


TRACE_PROPS = {"C01", "C02", "C03", "C05", "C08", "C09", "C10"}


def run_trace_judge(prop, cases, impl):
    """evaluate the Lean Spec (Iauthd.Proto.Hist) on the implementation's records"""
    jcases = []
    for c, ir in zip(cases, impl):
        lines = []
        # symbolic routing tags are resolved the way the harness resolved them (from the
        # implementation's own queries) before the Spec reads the history
        for i, op in enumerate(tagres.resolve_ops(c.lines[1:], ir)):
            lines.append(op)
            lines.append("=> " + (ir[i] if i < len(ir) else ("fault (no record)" if i == len(ir) else "")))
        jc = Case(c.name, lines)
        jcases.append(jc)
    recs, _ = core.run_cases([core.drv_path(DRIVER), "judge"], jcases)
    return recs


XLINE = re.compile(rb"^X ")
VERDICT = re.compile(rb"^[DRU] ")


def _proj_lines(rec, rx):
    return [l for l in _lines_of(canon_record(rec)) if rx.match(l)]


LATE_VERDICT = re.compile(rb"^[DRUk] ")


def judge(prop, case, ir, sr, mr=None):
    if prop in ("C01", "C03"):
        # real program only: bytes the driver received only after it had sent the next input line
        for i, r in enumerate(ir):
            for tok in r.split(" ")[2:]:
                if tok.startswith("late=") and any(LATE_VERDICT.match(l) for l in unhx(tok[5:]).split(b"\n")):
                    return (i, "%s: a verdict decided by the timer was written only after the next input line arrived "
                               "(it can reach the server after the id was withdrawn or announced again): %r" % (prop, unhx(tok[5:])))
    if prop in ("C06", "C11") and mr is not None:
        rx = XLINE if prop == "C06" else VERDICT
        for i in range(max(len(ir), len(mr))):
            a = _proj_lines(ir[i], rx) if i < len(ir) else None
            bb = _proj_lines(mr[i], rx) if i < len(mr) else None
            if a is not None and bb is not None and " fired=" in ir[i] + mr[i]:
                # several timers expire in one `elapse`: which client's expires first is not the
                # property's business (and in the real program depends on libevent's coarse clock)
                a, bb = sorted(a), sorted(bb)
            if a != bb:
                what = "queries" if prop == "C06" else "class / trusted user name"
                return (i, "%s: %s differ from what the proved characterisation demands: got %r, expected %r" % (prop, what, a, bb))
        return False
    if sr is None:
        return False
    for i, r in enumerate(sr):
        if r.startswith("viol "):
            for item in r[5:].split("|"):
                if item.startswith(prop + ":"):
                    return (i, item)
    return False


def header_len(case):
    # case, modules, conf, [verbosity], start
    n = 1
    for l in case.lines[1:]:
        n += 1
        if l == "start":
            break
    return n


# ------------------------------------------------------------------ text helpers

def hx(s):
    bs = s if isinstance(s, bytes) else s.encode("latin-1")
    return bs.hex() if bs else "="


def unhx(h):
    if h in ("=", "-", "?"):
        return b""
    try:
        return bytes.fromhex(h)
    except ValueError:
        return b"<badhex>"


TOKEN_RE = re.compile(rb"^[A-Za-z0-9._#-]+$")


def conf_str(s):
    bs = s if isinstance(s, bytes) else s.encode("latin-1")
    if bs and TOKEN_RE.match(bs):
        return bs.decode("latin-1")
    out = '"'
    for c in bs:
        if c in (0x22, 0x5c):
            out += "\\" + chr(c)
        elif 32 <= c < 127:
            out += chr(c)
        else:
            out += "\\x%02x" % c
    return out + '"'


class Cfg:
    """a daemon configuration in structured form"""

    def __init__(self, timeout=0, services=None, rules=None, xq_objects=None, cls_strings=None, logs=None):
        self.timeout = timeout
        self.services = services or []      # [(name, typetext)]
        self.rules = rules or []            # [(name, [(key, value), ...])]
        self.xq_objects = xq_objects or []  # names of object children under iauth_xquery
        self.cls_strings = cls_strings or []  # [(name, value)] string children under iauth_class
        self.logs = logs or []              # [(key, dest)]
        self.drop_empty = False             # write no header at all for a section without entries

    def text(self):
        t = []
        if self.logs:
            t.append("logs {")
            for k, d in self.logs:
                t.append(" %s %s;" % (conf_str(k), conf_str(d)))
            t.append("}")
        t.append("iauth {\n timeout %d;\n}" % self.timeout)
        # a section the file does not mention at all is an empty section (seeded change C17-3 kept
        # the old children of a section whose header disappeared)
        if not (self.drop_empty and not self.services and not self.xq_objects):
            t.append("iauth_xquery {")
            for n, v in self.services:
                t.append(" %s %s;" % (conf_str(n), conf_str(v)))
            for n in self.xq_objects:
                t.append(" %s {\n }" % conf_str(n))
            t.append("}")
        if not (self.drop_empty and not self.cls_strings and not self.rules):
            t.append("iauth_class {")
            for n, v in self.cls_strings:
                t.append(" %s %s;" % (conf_str(n), conf_str(v)))
            for n, kv in self.rules:
                t.append(" %s {" % conf_str(n))
                for k, v in kv:
                    t.append("  %s %s;" % (k, conf_str(v)))
                t.append(" }")
            t.append("}")
        return "\n".join(t) + "\n"

    def fields(self):
        f = ["t=%d" % self.timeout]
        for n, v in self.services:
            f.append("s=%s:%s" % (hx(n), hx(v)))
        for n in self.xq_objects:
            f.append("o=%s" % hx(n))
        for n, v in self.cls_strings:
            f.append("c=%s:%s" % (hx(n), hx(v)))
        for n, kv in self.rules:
            f.append("r=%s" % hx(n) + "".join(":%s=%s" % (k, hx(v)) for k, v in kv))
        return " ".join(f)

    def op(self, kind="conf"):
        return "%s %s %s" % (kind, hx(self.text()), self.fields())


def header(mods, cfg, verbosity=None):
    h = ["modules " + mods, cfg.op("conf")]
    if verbosity is not None:
        h.append("verbosity %d" % verbosity)
    h.append("start")
    return h


def inl(text):
    """one input line as one chunk"""
    bs = text if isinstance(text, bytes) else text.encode("latin-1")
    return "in " + hx(bs + b"\n")


# ------------------------------------------------------------------ scenario generator

SVC_NAMES = ["login.srv", "drone.srv", "ipr.srv", "combo.srv"]
SVC_TYPES = ["login", "login-ipr", "dronecheck", "combined"]
ADDRS = ["1.2.3.4", "10.0.0.1", "255.255.255.255", "0.0.0.0", "0::1", "2001:db8::1", "0::ffff:1.2.3.4",
         "1:0:0:2:0:3:0:0", "0:1:2:3:4:5:6:7", "fe80::1:2:3:4", "junk", "1.2.3", "12345::", "1:2:3:4:5:6:7:8",
         "0:0:0:0:0:0:102:304", "a:b:c:d:e:f:1:0", "A:B:C:D:E:F:1:0", "FE80::Ab:10", "2001:DB8::100:1000",
         # the longest texts an address can have (39 bytes; 45 with an embedded dotted quad on input)
         "2001:1db8:85a3:1111:2222:8a2e:1370:7334", "ffff:ffff:ffff:ffff:ffff:ffff:ffff:ffff", "1000:1000:1000:1000:1000:1000:1000:1000",
         "ffff:ffff:ffff:ffff:ffff:ffff:255.255.255.255"]
FIELD_LENS = [0, 1, 9, 10, 11, 29, 30, 31, 49, 50, 51, 62, 63, 64, 65, 200, 600]


def zero_pattern_addr(mask, rng=None):
    """uncompressed IPv6 text whose group i is zero iff bit i of mask is clear"""
    pool = ["1", "a", "ff", "1a2b", "ffff", "30", "5", "10", "100", "1000", "F", "1A2B", "fFfF"]
    gs = []
    for i in range(8):
        if mask >> i & 1:
            gs.append(rng.choice(pool) if rng else pool[i % len(pool)])
        else:
            gs.append("0")
    return ":".join(gs)


def rand_addr(rng):
    """announced address: the fixed pool, or an IPv6 address with a random pattern of zero groups
    (several zero runs of different lengths: what the printer's '::' choice depends on)"""
    if rng.random() < 0.55:
        return rng.choice(ADDRS)
    return zero_pattern_addr(rng.randrange(256), rng)


def rand_word(rng, n, alphabet="abcXYZ019-_~[]%%d"):
    return "".join(rng.choice(alphabet) for _ in range(n))


# every byte a field can hold: all but NUL, the line end and the blank (control bytes that the
# tokenizer takes for separators included: they split the field, on both sides alike)
WIDE = "".join(chr(c) for c in range(1, 256) if c not in (10, 32))


def field(rng, typical, limit):
    r = rng.random()
    if r < 0.5:
        return typical
    if r < 0.58:
        return rand_word(rng, rng.choice([1, 3, limit - 1, limit, limit + 1]), WIDE if rng.random() < 0.5 else "a\xe9\xff\x80\x01\x7f\tZ*?\\")
    if r < 0.8:
        return rand_word(rng, rng.choice([1, limit - 1, limit, limit + 1]))
    if r < 0.9:
        return "~" + rand_word(rng, rng.randint(1, limit + 2))
    return rand_word(rng, rng.choice(FIELD_LENS))


def rand_cfg(rng, mods, timeout=None):
    services = []
    if mods != "core":
        k = rng.choice([0, 1, 1, 2, 2, 3, 4])
        for n in rng.sample(SVC_NAMES, k):
            t = rng.choice(SVC_TYPES + ["Login", "DRONECHECK", "bogus"]) if rng.random() < 0.15 else rng.choice(SVC_TYPES)
            services.append((n, t))
        if rng.random() < 0.04:
            # many services, but fewer slots than the clients' 32-bit masks have bits: beyond that
            # lies the recorded finding F32 (slot 32+k is taken for slot k), replayed from
            # known_findings.json and kept out of the random families
            for j in range(rng.choice([8, 16, 22])):
                services.append(("s%02d.srv" % j, rng.choice(["dronecheck", "dronecheck", "login", "combined"])))
    rules = []
    if mods == "class":
        for n in rng.sample(["a", "B", "c", "Dd", "e", "_g"], rng.choice([0, 1, 2, 3])):
            kv = []
            if rng.random() < 0.6:
                kv.append(("class", rng.choice(["cls-" + n, "cls-" + n, "users", "users", "x" * 70, "y" * 63, "z" * 64, "w" * 65])))
            if rng.random() < 0.4:
                # near-misses of the accounts the services vouch: prefixes, extensions, case variants
                kv.append(("account", rng.choice(["*", "acct", "acc", "acctx", "ac*", "?cct", "ACCT", "nomatch", "acct:123", "a\\cct"])))
            if rng.random() < 0.3:
                kv.append(("address", rng.choice(["1.2.3.4/32", "1.2.0.0/16", "10.*", "2001:db8::/32", "*", "9.9.9.9", "::/0", "bogus/99"])))
            if rng.random() < 0.3:
                kv.append(("username", rng.choice(["*", "ident", "iden", "identx", "~*", "id*", "IDENT", "?dent"])))
            if rng.random() < 0.3:
                kv.append(("hostname", rng.choice(["*", "*.example", "host.example", "host.exampl", "host.example.", "HOST.EXAMPLE", "nomatch"])))
            if rng.random() < 0.3 and services:
                kv.append(("xreply_ok", rng.choice([s[0] for s in services] + ["Login.Srv", "nosuch"])))
            if rng.random() < 0.3:
                kv.append(("trust_username", rng.choice(["yes", "no", "1", "true", "maybe"])))
            rules.append((n, kv))
    if timeout is None:
        timeout = rng.choice([0, 0, 30, 5])
    return Cfg(timeout=timeout, services=services, rules=rules)


PASSWORDS = ["+x acct " + "p" * 503, "+x " + "a" * 300 + " " + "p" * 209, "+! acct ", "+x acct pass", "+! acct pass", "+x! acct pass", "-! acct pass", "-x+! acct pass", "+x", "+x acct",
             "acct pass", "+xzz!  acct  pass word", "+ a b", "-!", "+!x acct pass", "x acct pass", "+x-x acct p"]
REPLIES = ["OK", "OK acct", "OK acct:123:4", "OK acctx:9", "OK acc", "OK acc:7", "OK ", "OK  two", "NO go away", "NO ", "NO", "AGAIN try later", "AGAIN",
           "MORE challenge text", "MORE", "OKAY", "ok", "BOGUS text", "OK " + "a" * 70, "NO " + "r" * 1100,
           # texts are data, never formats: conversion-looking bytes must come out as they went in
           "AGAIN 100%% sure", "MORE 50%d off %u", "NO 17 %% 5 %x", "OK ac%%ct",
           # bytes beyond ASCII and control bytes
           "NO caf\xe9 \x01\x7f\xff", "MORE \ttab\x0bvt", "OK acc\xe9t", "OK \xff\xfe:12", "AGAIN \x80\x81"]


class Client:
    def __init__(self, cid):
        self.cid = cid
        self.events = []


def client_script(rng, cid, cfg, mods):
    """abstract events of one client, in its own order"""
    ev = []
    addr = rand_addr(rng)
    port = rng.choice(["1234", "0", "65535", "65536", "70000", "-1", "x"])
    ev.append(("C", addr, port))
    items = []
    if rng.random() < 0.9:
        items.append(("line", "N " + field(rng, "host.example", 63)) if rng.random() < 0.7 else ("line", "d"))
    if rng.random() < 0.9:
        r = rng.random()
        items.append(("line", "u " + field(rng, "ident", 10)) if r < 0.7 else ("line", "u"))
    if rng.random() < 0.9:
        items.append(("line", "n " + field(rng, "nick", 30)))
    if rng.random() < 0.9:
        real = field(rng, "real name", 50)
        if rng.random() < 0.12:
            # a carriage return inside a text is a byte of the text, not a line end (seeded change
            # C10-7 read lines with EVBUFFER_EOL_ANY: the rest of the text became a line of its own)
            real = rng.choice(["Bob", ""]) + "\r" + rng.choice(["%d D" % rng.choice([1, 2, 5, 7, 300]), "%d T" % rng.choice([1, 2, 5, 7, 300]),
                                                                 "77 C 10.9.9.9 4242 0::1 6667", "%d H" % rng.choice([1, 2, 5, 7, 300])])
        items.append(("line", "U " + field(rng, "user", 10) + " :" + real))
    if rng.random() < 0.6:
        items.append(("line", "P :" + rng.choice(PASSWORDS)))
    smuggle = None
    if rng.random() < 0.05:
        # a long text that, read from the offset where a fixed-size line buffer would end (512 or 1024
        # bytes, give or take the blanks in front), looks like an announcement of a client the server
        # never announced (seeded change C01-7 cut lines at 511 bytes and parsed the rest as a line)
        size = rng.choice([512, 512, 1024, 256])
        head = "%d P :+x acct " % cid
        text = "P :+x acct " + "p" * (size - len(head) - 6) + " " * 12 + "77 C 10.9.9.9 4077 0::1 6667"
        items.append(("line", text))
        smuggle = ("rawline", "77 H")
    if rng.random() < 0.15:
        items.append(("line", "P :" + rng.choice(PASSWORDS)))
    if rng.random() < 0.15:
        items.append(rng.choice(items) if items else ("line", "d"))
    rng.shuffle(items)
    # the server reports a field a second time with another, often shorter, value: the later
    # report replaces the earlier one completely (seeded change C06-3 kept the old tail)
    for it in list(items):
        if it[0] == "line" and it[1][:2] in ("n ", "u ", "N ", "U ") and rng.random() < 0.2:
            letter, rest = it[1][0], it[1][2:]
            if letter == "U":
                u, _, real = rest.partition(" :")
                again = "U %s :%s" % (rng.choice([u[:max(1, len(u) // 2)], "u2", u + "x"])[:200] or "u",
                                      rng.choice([real[:len(real) // 2], "r", real + " more"]))
            else:
                again = "%s %s" % (letter, rng.choice([rest[:max(1, len(rest) // 2)], "zz", rest + "x"]) or "z")
            items.insert(rng.randint(items.index(it) + 1, len(items)), ("line", again))
    ev += items
    if rng.random() < 0.25:
        ev.insert(rng.randint(1, len(ev)), ("line", "H"))
    # replies
    names = [s[0] for s in cfg.services]
    nrep = rng.choice([0, 1, 2, 3, 4]) if names else rng.choice([0, 0, 1])
    for _ in range(nrep):
        svc = rng.choice(names + ["other.srv"]) if names else "other.srv"
        kind = "x" if rng.random() < 0.12 else "X"
        tagmode = rng.choice(["cur"] * 8 + ["stale", "plus1", "wrap", "garbage", "nosep", "upper", "respell", "respell"])
        pos = rng.randint(1, len(ev)) if rng.random() < 0.4 else len(ev)
        ev.insert(pos, ("reply", kind, svc, None if rng.random() < 0.06 else rng.choice(REPLIES), tagmode))
        if rng.random() < 0.2:
            ev.insert(min(len(ev), pos + 1), ("line", "P :" + rng.choice(["response text", "+x acct pass"])))
    if cfg.timeout and rng.random() < 0.35:
        ev.insert(rng.randint(1, len(ev)), ("timeout",))
    if rng.random() < 0.3:
        ev.insert(rng.randint(1, len(ev)), ("line", rng.choice(["D", "T"])))
    if rng.random() < 0.15:
        ev.insert(rng.randint(1, len(ev)), ("C", rand_addr(rng), "99"))
    if rng.random() < 0.3:
        ev.append(("line", "H"))
    if smuggle:
        ev.append(smuggle)
    return ev


def sym_tag(cid, k, literal):
    """the routing tag of the k-th announced instance of client cid, as the program under test
    forms it (resolved by the harness / driver from that program's own queries, vlib/tagres.py);
    `literal` (the tag as this code base forms it) when that instance has sent no query"""
    if k < 1 or not -2147483648 <= cid <= 2147483647:
        return literal
    return "@T%d#%d|%s@" % (cid, k, literal)


def literal_tags(ops):
    """the ops with every symbolic routing tag replaced by its literal fallback"""
    out = []
    for l in ops:
        f = l.split(" ")
        if f[0] == "in" and len(f) >= 2 and "4054" in f[1]:
            f[1] = hx(tagres.PH.sub(lambda m: m.group(3), unhx(f[1])))
            l = " ".join(f)
        out.append(l)
    return out


def _ordinals(ops):
    """serial -> (cid, ordinal of that instance among the announcements of cid), from the input alone"""
    serial, ordn, out = 0, {}, {}
    for op in ops:
        f = op.split(" ")
        if f[0] != "in" or len(f) < 2:
            continue
        for raw in unhx(f[1]).split(b"\n"):
            toks = raw.split()
            if len(toks) >= 6 and toks[1][:1] == b"C" and not any(t.startswith(b":") for t in toks[2:5]):
                try:
                    cid = int(toks[0])
                except ValueError:
                    continue
                serial += 1
                ordn[cid] = ordn.get(cid, 0) + 1
                out[serial] = (cid, ordn[cid])
    return out


# long lines may reach the daemon in two reads; only in the families whose judges read each case on
# its own (the cross-case judges of C04, C07, C08 and C17 insert lines between ops)
SPLIT_LONG = False


def render_schedule(rng, scripts, chunks=False):
    """interleave scripts preserving per-client order; returns op lines"""
    ops = []
    serial = 0
    cur = {}       # cid -> current serial
    prev = {}      # cid -> previous serial
    ordn = {}      # cid -> how many instances of it have been announced
    idx = {cid: 0 for cid in scripts}
    live = [cid for cid in scripts if scripts[cid]]
    while live:
        cid = rng.choice(live)
        e = scripts[cid][idx[cid]]
        idx[cid] += 1
        if idx[cid] >= len(scripts[cid]):
            live.remove(cid)
        if e[0] == "C":
            serial += 1
            prev[cid] = cur.get(cid, 0)
            cur[cid] = serial
            ordn[cid] = ordn.get(cid, 0) + 1
            ops.append(inl("%d C %s %s 0::1 6667" % (cid, e[1], e[2])))
        elif e[0] == "line":
            raw = ("%d %s" % (cid, e[1])).encode("latin-1") + b"\n"
            if SPLIT_LONG and len(raw) > 300 and rng.random() < 0.5:
                # a long line that reaches the daemon in two reads (seeded change C06-7 threw away
                # 512 pending bytes without a line end and read the tail as a line of its own)
                cut = len(raw) - rng.choice([1, 2, 6, 40])
                ops.append("in " + hx(raw[:cut]))
                ops.append("in " + hx(raw[cut:]))
            else:
                ops.append("in " + hx(raw))
        elif e[0] == "timeout":
            ops.append("timeout %d" % cid)
        elif e[0] == "rawline":
            ops.append(inl(e[1]))
        elif e[0] == "fill":
            # e[1] other clients come and go (one burst from the server): the serial counter moves on
            serial += e[1]
            ops.append("in " + hx(b"".join(b"999 C 10.9.9.9 999 0::1 6667\n999 D\n" for _ in range(e[1]))))
        elif e[0] == "split":
            # one line delivered by two reads, nothing in between
            raw = ("%d %s" % (cid, e[1])).encode("latin-1") + b"\n"
            cut = len(raw) - e[2]
            ops.append("in " + hx(raw[:cut]))
            ops.append("in " + hx(raw[cut:]))
        elif e[0] == "reply":
            _, kind, svc, text, tagmode = e
            s = cur.get(cid, 0)
            idh = "%x" % (cid & 0xffffffff)
            if tagmode == "cur":
                tag = sym_tag(cid, ordn.get(cid, 0), "%s_%x" % (idh, s))
            elif tagmode == "stale":
                tag = sym_tag(cid, ordn.get(cid, 0) - 1, "%s_%x" % (idh, prev.get(cid, 0)))
            elif tagmode == "plus1":
                tag = "%s_%x" % (idh, s + 1)
            elif tagmode == "wrap":
                tag = "1%08x_1%08x" % (cid & 0xffffffff, s)
            elif tagmode == "garbage":
                tag = rng.choice(["zz", "_", "5_", "_1", "5_1x", "5__1", "-5_1", ""])
            elif tagmode == "nosep":
                tag = "%s%x" % (idh, s)
            elif tagmode == "respell":
                # the same two numbers spelled another way (seeded change C03-7 compared the tag's
                # text with a re-rendering): leading zeros, 0x prefixes, signs, upper case
                tag = rng.choice(["0%s_00%x", "0x%s_0x%x", "+%s_+%x", "0X%s_%x", "%s_0%x"]) % (idh, s)
                if rng.random() < 0.3:
                    tag = tag.upper().replace("0X", "0x")
            else:
                tag = ("%s_%x" % (idh, s)).upper()
            if text is None:
                # a reply cut short: service and tag but no text parameter (seeded change C08-3
                # took the missing parameter for the "unlinked" sentinel)
                ops.append(inl("-1 %s %s %s%s" % (kind, svc, tag, rng.choice(["", " ", "  "]))))
            else:
                ops.append(inl("-1 %s %s %s :%s" % (kind, svc, tag, text)))
    return ops


def scenario(rng, name, mods=None, nclients=None, cfg=None):
    mods = mods or rng.choice(["core", "xquery", "xquery", "class", "class"])
    cfg = cfg or rand_cfg(rng, mods)
    nclients = nclients or rng.choice([1, 1, 2, 3, 4])
    ids = rng.sample([1, 2, 5, 7, 300, 65535, 0, -2, 2147483647, 8, 9, 10], nclients)
    scripts = {cid: client_script(rng, cid, cfg, mods) for cid in ids}
    ops = header(mods, cfg) + render_schedule(rng, scripts)
    if cfg.timeout and rng.random() < 0.5:
        # real time passes: every armed timer fires
        ops.insert(rng.randint(header_len_ops(ops), len(ops)), "elapse")
        if rng.random() < 0.5:
            ops.append("elapse")
    if rng.random() < 0.25:
        # reports asked for in mid-history: they must not disturb anything
        ops.insert(rng.randint(header_len_ops(ops), len(ops)), inl(rng.choice(["-1 ? :stats", "-1 ? :config", "-1 ? :stats", "-1 ? :stats2"])))
        ops = heal_splits(ops)
    if rng.random() < 0.5:
        ops.append(inl(rng.choice(["-1 ? :stats", "-1 ? :stats", "-1 ? :stats2"])))
    if rng.random() < 0.2:
        ops.append(inl("-1 ? :config"))
    ops.append("eof")
    return Case(name, ops, tags={"mods": mods})


def header_len_ops(ops):
    for i, l in enumerate(ops):
        if l == "start":
            return i + 1
    return len(ops)


MALFORMED = [b"", b" ", b"5", b"5 ", b"  5  ", b"-1", b"5 N", b"5 P", b"5 n", b"5 u", b"5 U", b"5 U x", b"5 C", b"5 C 1.2.3.4",
             b"5 C 1.2.3.4 1 2", b"5 X", b"-1 X a", b"-1 X a b", b"-1 x a b", b"-1 ?", b"-1 ? bogus", b"5 :", b"5 :N host", b": x",
             b"99999999999999999999 D", b"4294967301 D", b"-1 D", b"-1 N", b"-1 N h", b"-1 d", b"-1 P", b"-1 U", b"-1 u", b"-1 n",
             b"-1 H", b"-1 T", b"-1 E", b"5 E a b", b"5 M srv 10", b"-1 M", b"5 Z", b"5 \xff\xfe", b"\x00", b"5 \x00N host",
             b"5 N host\r", b"5 N\rhost", b"\r", b"5 q w e r t y u i o p a s d f g h j k l z x c v b n m",
             b"5 N " + b"h" * 5000, b"5 " + b"N" * 3000, b"0x5 N host", b"+5 N host", b" 5 N host", b"5N host", b"5\tN\thost"]


def malformed_case(rng, name):
    mods = rng.choice(["core", "xquery", "class"])
    cfg = rand_cfg(rng, mods)
    ops = header(mods, cfg)
    ops.append(inl("5 C 1.2.3.4 1234 0::1 6667"))
    for _ in range(rng.randint(1, 6)):
        r = rng.random()
        if r < 0.7:
            ops.append(inl(rng.choice(MALFORMED)))
        elif r < 0.85:
            ops.append(inl(bytes(rng.randrange(256) for _ in range(rng.randint(1, 40))).replace(b"\n", b" ")))
        else:
            ops.append(inl("5 " + rng.choice(["d", "u id", "n nick", "U user :real", "H", "N host"])))
    ops.append(inl("5 H"))
    ops.append("eof")
    return Case(name, ops, tags={"mods": mods, "malformed": True})


def search_cases(prop, finding, seed):
    """model and code diverged without a property failure on those inputs: look for a failing
    input near the (shrunk) diverging history and in a larger fresh batch"""
    rng = core.rng_for(seed, "proto-search-" + prop)
    body = finding.case.body()
    hl = header_len(finding.case) - 1
    head, tail = body[:hl], [l for l in body[hl:] if l != "eof"]
    ids = set()
    for l in tail:
        f = l.split(" ")
        if f[0] == "in":
            t = unhx(f[1]).split()
            if len(t) >= 2 and t[1][:1] == b"C":
                try:
                    ids.add(int(t[0]))
                except ValueError:
                    pass
    cfgop = [l for l in head if l.startswith("conf ")]
    cfg = _cfg_from_fields(cfgop[0]) if cfgop else Cfg()
    timeout_cfg = any(" t=0" not in l for l in cfgop)
    out = []
    k = 0
    serials = _track_serials(tail)
    ords = _ordinals(tail)

    def add(lines):
        nonlocal k
        out.append(Case("search/%d" % k, head + lines + ["eof"], tags=dict(finding.case.tags)))
        k += 1

    # the history itself, completed: hurry-ups, every reply kind from every service, timeouts at every point
    for cid in sorted(ids):
        add(tail + [inl("%d H" % cid)])
        for pos in range(len(tail) + 1):
            add(tail[:pos] + ["timeout %d" % cid] + tail[pos:])
            add(tail[:pos] + ["timeout %d" % cid] + tail[pos:] + [inl("%d H" % cid)])
        cur = serials[-1][0].get(cid)
        if cur:
            for svc, _t in cfg.services:
                for rep in ("OK", "OK acct", "NO x", "AGAIN x", "MORE x"):
                    line = inl("-1 X %s %s :%s" % (svc, sym_tag(cid, ords.get(cur, (cid, 0))[1], "%x_%x" % (cid & 0xffffffff, cur)), rep))
                    add(tail + [line])
                    add(tail + [line, inl("%d H" % cid)])
                    for pos in range(len(tail) + 1):
                        add(tail[:pos] + ["timeout %d" % cid] + tail[pos:] + [line])
    out = out[:4000]
    # the same history with every pattern of zero groups as the announced address
    for pos, l in enumerate(tail):
        f = l.split(" ")
        if f[0] == "in":
            t = unhx(f[1]).split(b" ")
            if len(t) >= 6 and t[1] == b"C":
                for mask in range(256):
                    t2 = list(t)
                    t2[2] = zero_pattern_addr(mask).encode()
                    add(tail[:pos] + ["in " + hx(b" ".join(t2))] + tail[pos + 1:] + [inl("%s H" % t[0].decode("latin-1"))])
                break
    # a fresh batch, ten times the quick size, with configured timeouts favoured
    for i in range(6000):
        c = scenario(rng, "search/rnd%d" % i)
        out.append(c)
    return out


def _track_serials(ops):
    """serial bookkeeping from the input alone: yields per op index the map id -> (current serial, stale serials)"""
    serial = 0
    cur, stale = {}, {}
    states = []
    for op in ops:
        states.append((dict(cur), {k: list(v) for k, v in stale.items()}, serial))
        f = op.split(" ")
        if f[0] != "in" or len(f) < 2:
            continue
        for raw in unhx(f[1]).split(b"\n"):
            toks = raw.split()
            if len(toks) >= 2:
                try:
                    cid = int(toks[0])
                except ValueError:
                    continue
                cmd = toks[1][:1]
                if cmd == b"C" and len(toks) >= 6 and not any(t.startswith(b":") for t in toks[2:5]):
                    serial += 1
                    if cid in cur:
                        stale.setdefault(cid, []).append(cur[cid])
                    cur[cid] = serial
                elif cmd in (b"D", b"T") and cid in cur:
                    stale.setdefault(cid, []).append(cur.pop(cid))
    states.append((dict(cur), {k: list(v) for k, v in stale.items()}, serial))
    return states


def stray_replies(rng, ops, p, cfg):
    """reply lines that are stray at position p by construction"""
    cur, stale, serial = _track_serials(ops)[p]
    ords = _ordinals(ops)
    names = [s[0] for s in cfg.services] or ["login.srv"]
    texts = ["OK", "OK acct", "NO go away", "AGAIN later", "MORE chal", "junk"]
    out = []
    ids = list(cur) + list(stale) or [5]
    for _ in range(3):
        cid = rng.choice(ids)
        idh = "%x" % (cid & 0xffffffff)
        kind = rng.choice(["X", "X", "X", "x"])
        r = rng.random()
        if r < 0.25 and stale.get(cid):
            # a reply to a query of an earlier instance of this id, whatever its tag looked like
            st = rng.choice(stale[cid])
            tag, svc = sym_tag(cid, ords.get(st, (cid, 0))[1], "%s_%x" % (idh, st)), rng.choice(names)
        elif r < 0.35:
            tag, svc = "%s_%x" % (idh, serial + rng.randint(1, 9)), rng.choice(names)
        elif r < 0.5:
            # ("-0_1" is just another spelling of 0_1, so the sign form is only stray for ids other than 0)
            tag, svc = rng.choice(["zz", "_", idh + "_", "_1", idh + "_1x", idh + "__1", ("-" + idh + "_1") if cid != 0 else "-_1", idh]), rng.choice(names)
        elif r < 0.65 and cid in cur:
            tag, svc = "1%08x_1%08x" % (cid & 0xffffffff, cur[cid]), rng.choice(names)
        elif r < 0.8 and cid in cur:
            tag, svc = "%s_%x" % (idh, cur[cid]), rng.choice(["nosuch.srv", names[0].upper(), names[0] + "x", ""])
        else:
            tag, svc = "%s_%x" % (idh, cur.get(cid, 0) + 1), rng.choice(names)
        out.append("-1 %s %s %s :%s" % (kind, svc or "x", tag, rng.choice(texts)))
    if cur:
        # a reply without its text parameter, otherwise perfectly addressed: malformed, to be ignored
        cid = rng.choice(list(cur))
        out.append("-1 X %s %s%s" % (rng.choice(names), sym_tag(cid, ords.get(cur[cid], (cid, 0))[1], "%x_%x" % (cid & 0xffffffff, cur[cid])),
                                     rng.choice(["", " "])))
    return out


JUNK = [b"", b"99 N host", b"99 P :+x a b", b"99 D", b"99 H", b"-1 ? bogus", b"-1 ?", b"99 X a b :c", b"-1 X a", b"-1 x a b",
        b"5 Z", b"5 %", b"-1 E a b", b"-1 M srv 5", b"98 C 1.2.3.4", b"98 C", b"  ", b"4294967395 D", b"99999999999999999999 H"]


ACCOUNTS = ["acct", "acct:123:4", "acctx:9", "acc", "acc:7", "ACCT", "a", "acct2:1", "acc\xe9t", "acc\xe9t:5", "ac%ct",
            # names longer than ircu's own 12-byte account names, with and without a stamp
            "bartholomew-staff:1234567890", "bartholomew-staff", "bartholomew-helper:1234567890:77", "a" * 64]
ACCOUNT_PATS = ["*", "acct", "acc", "acctx", "ac*", "?cct", "ACCT", "nomatch", "acct:123", "a\\cct", "acct*", "*t", "a", "acc?t", "*\xe9*", "ac%ct", "ACC\xc9T",
                "*-staff", "bartholomew-staff", "bartholomew-h*", "bartholomew-s", "a" * 64, "a" * 63 + "?"]
HOSTS = ["host.example", "host.exampl", "Host.Example", "a.b.example", "example", "h\xf6st.example"]
HOST_PATS = ["*", "*.example", "host.example", "host.exampl", "host.example.", "HOST.EXAMPLE", "nomatch", "host.*", "?ost.example", "h?st.example", "H\xd6ST.EXAMPLE", "h\xf6st.*",
             # a backslash quotes the next byte also where no wildcard is in sight (seeded change C11-12x9
             # compared patterns without * ? [ with strcmp)
             "host\\.example", "h\\ost.example", "a\\.b.example"]
IDENTS = ["ident", "iden", "identx", "~ident", "IDENT"]
IDENT_PATS = ["*", "ident", "iden", "identx", "~*", "id*", "IDENT", "?dent", "iden\\t", "\\~ident", "i\\dent"]
CADDRS = ["1.2.3.4", "1.2.3.5", "1.2.255.255", "1.3.0.0", "10.0.0.1", "0::102:304", "0::ffff:1.2.3.4", "2001:db8::1", "2001:db9::1", "0::1"]
ADDR_PATS = ["0.0.0.0/0", "0.0.0.0/1", "0::/8", "0::/0", "0::/96", "0::ffff:0.0.0.0/96", "0.0.0.0/8", "0.*", "1.2.3.4/32", "1.2.3.4", "1.2.0.0/16", "1.2.3.0/24", "1.2.3.4/31", "1.*", "1.2.*", "10.*", "2001:db8::/32", "2001:db8::/31",
             "2001:db8:*", "*", "0::/0", "9.9.9.9", "bogus/99", "0::ffff:1.2.3.4/128", "0::102:304"]


def class_scenario(rng, name):
    """C11: rule tables against clients whose attributes are near-misses of the criteria"""
    services = [("login.srv", "login")]
    if rng.random() < 0.4:
        services.append(("drone.srv", "dronecheck"))
    rules = []
    for n in rng.sample(["a", "B", "c", "Dd", "e", "F0", "_g", "D_x"], rng.choice([1, 2, 2, 3])):
        kv = []
        if rng.random() < 0.7:
            kv.append(("class", rng.choice(["cls-" + n, "cls-" + n, "users", "users", "x" * 70, "y" * 63, "z" * 64, "w" * 65])))
        for crit, pool in rng.sample([("account", ACCOUNT_PATS), ("hostname", HOST_PATS), ("username", IDENT_PATS),
                                      ("address", ADDR_PATS), ("xreply_ok", ["login.srv", "drone.srv", "Login.Srv", "nosuch"])],
                                     rng.choice([0, 1, 1, 1, 2])):
            kv.append((crit, rng.choice(pool)))
        if rng.random() < 0.4:
            kv.append(("trust_username", rng.choice(["yes", "yes", "no", "1"])))
        rules.append((n, kv))
    # a quarter of the tables meet clients that are let in by the request timer while a service is
    # still silent: "asked, no final answer yet" is a third outcome next to OK and NO/unlinked, and
    # an xreply_ok criterion must not hold for it
    timed = rng.random() < 0.25
    tmo = 30 if timed else 0
    if timed and rules and rng.random() < 0.7:
        n, kv = rules[0]
        rules[0] = (n, [x for x in kv if x[0] != "xreply_ok"] + [("xreply_ok", rng.choice([s[0] for s in services]))])
    stale = bool(rules) and rng.random() < 0.12
    if stale:
        # the first rule asks for an account that an earlier client has and a later one has not
        # (seeded change C11-5 prepared the account name once per client in a static buffer and
        # left the previous client's name there for a client without account)
        k = min(range(len(rules)), key=lambda q: (rules[q][0].lower(), rules[q][0]))
        rules[k] = (rules[k][0], [x for x in rules[k][1] if x[0] == "class"] + [("account", rng.choice(["acct", "?cct", "ac*"]))])
    trusted = bool(rules) and not stale and rng.random() < 0.15
    if trusted:
        # the first rule in name order matches everybody and trusts the user name: the class module
        # calls back into the core from inside iauth_accept (seeded change C01-2)
        k = min(range(len(rules)), key=lambda q: (rules[q][0].lower(), rules[q][0]))
        rules[k] = (rules[k][0], [x for x in rules[k][1] if x[0] == "class"] + [("trust_username", "yes")])
    accounts = ACCOUNTS
    if rules and rng.random() < 0.12:
        # account names beyond ircu's own twelve bytes against patterns that look at their far end
        # (seeded change C11-8x14 matched only the first twelve bytes of a stamped account)
        n, kv = rules[0]
        rules[0] = (n, [x for x in kv if x[0] != "account"] + [("account", rng.choice(["*-staff", "bartholomew-staff", "bartholomew-h*", "bartholomew-s"]))])
        accounts = ["bartholomew-staff:1234567890", "bartholomew-staff", "bartholomew-helper:1234567890:77", "bartholomew-s:5"]
    cfg = Cfg(timeout=tmo, services=services, rules=rules)
    scripts = {}
    stale_ids = rng.sample([1, 2, 5, 7], 2) if stale else []
    for cid in (stale_ids or rng.sample([1, 2, 5, 7], rng.choice([1, 2]))):
        if stale:
            # the first one logs in and is vouched for, the second has no account
            ev = [("C", rng.choice(CADDRS), "1234"), ("line", "N host.example"), ("line", "u ident"), ("line", "n nick"), ("line", "U user :real name")]
            if cid == stale_ids[0]:
                ev.insert(1, ("line", "P :+x acct pass"))
                ev.append(("reply", "X", "login.srv", "OK acct:7", "cur"))
            if len(services) > 1:
                ev.append(("reply", "X", "drone.srv", "OK", "cur"))
            ev.append(("line", "H"))
            scripts[cid] = ev
            continue
        ev = [("C", rng.choice(CADDRS), "1234"), ("line", "N " + rng.choice(HOSTS)),
              ("line", "u " + (rng.choice(["~ident", "~x", "~"]) if trusted and rng.random() < 0.8 else rng.choice(IDENTS))),
              ("line", "n nick"), ("line", "U user :real name")]
        silent = timed and rng.random() < 0.8
        if rng.random() < 0.85:
            ev.insert(rng.randint(1, len(ev)), ("line", "P :+x acct pass"))
            if not (silent and rng.random() < 0.6):
                ev.append(("reply", "X", "login.srv", "OK " + rng.choice(accounts) if rng.random() < 0.9 else "OK", "cur"))
        if len(services) > 1 and not (silent and rng.random() < 0.6):
            ev.append(("reply", "X", "drone.srv", rng.choice(["OK", "OK", "AGAIN x"]), "cur"))
        if silent:
            ev.insert(rng.randint(max(1, len(ev) - 1), len(ev)), ("timeout",))
        # the server's hurry-up may name the class it would use itself; the rule table decides all the
        # same (seeded change C11-10x11 kept that class as a default and so skipped the rules)
        ev.append(("line", rng.choice(["H", "H", "H users", "H cls-hurry", "H Others extra"])))
        if rng.random() < 0.3:
            # … also before the client's data is complete, which is when a hurry-up decides anything
            ev.insert(rng.randint(1, len(ev) - 1), ("line", rng.choice(["H users", "H cls-hurry", "H Others extra", "H"])))
        scripts[cid] = ev
    head = header("class", cfg)
    if rules and rng.random() < 0.3:
        # the rule table the clients meet was reached through a reload that edited one rule in place:
        # a criterion dropped, added or changed (the compiled rule must be exactly the new text)
        k = rng.randrange(len(rules))
        n, kv = rules[k]
        crits = [("address", rng.choice(["9.9.9.9", "10.0.0.0/8", "1.2.3.0/24"])), ("hostname", "nomatch"), ("username", "nomatch"),
                 ("account", "nomatch"), ("trust_username", "yes"), ("xreply_ok", "nosuch")]
        extra = rng.choice(crits)
        r = rng.random()
        if r < 0.5:
            before = [x for x in kv if x[0] != extra[0]] + [extra]        # the old file had one criterion more
        elif r < 0.75:
            before = [x for x in kv if x[0] != extra[0]]                  # … or lacked one the new file has
        else:
            before = [(a, ("other" if a == extra[0] else b)) for a, b in kv] or [extra]
        old_rules = list(rules)
        old_rules[k] = (n, before)
        head = header("class", Cfg(timeout=tmo, services=services, rules=old_rules)) + [cfg.op("reload")]
    ops = head + render_schedule(rng, scripts) + [inl("-1 ? :stats"), "eof"]
    return Case(name, ops, tags={"mods": "class"})


def reuse_scenario(rng, name, gap=None):
    """C04/C05: the server withdraws a client while a query about it is unanswered and gives the
    id to a newcomer (from the same endpoints or others); the late answer must not touch the
    newcomer, whatever routing tags look like"""
    mods = rng.choice(["xquery", "class"])
    ltype = rng.choice(["login", "login", "login-ipr", "combined"])
    if gap:
        ltype = "login"       # both instances are asked about as soon as their PASS line is in
    services = [("login.srv", ltype)]
    if rng.random() < 0.3:
        services.append(("drone.srv", "dronecheck"))
    cfg = Cfg(timeout=rng.choice([0, 0, 30]), services=services,
              rules=[("a", [("class", "cls-a")])] if mods == "class" else [])
    cid = rng.choice([1, 5, 7, 300, 0, -2, 2147483647])
    addr, port = rng.choice(["10.0.0.1", "1.2.3.4", "2001:db8::1", "0::1"]), rng.choice(["4000", "1234"])
    data = [("line", "N host.example"), ("line", "u ident"), ("line", "n nick"), ("line", "U user :real name")]
    ev = [("C", addr, port)]
    first = list(data)
    rng.shuffle(first)
    ev += first[:rng.randint(0, 4)] if ltype == "login" else first
    ev.append(("line", "P :" + rng.choice(["+x alice pw1", "+! alice pw1", "+ alice pw1"])))
    gone = rng.choice(["D", "T", None, "D"])
    if gap:
        # the id comes back exactly `gap` announcements later (seeded change C04-6 kept sixteen bits
        # of the serial: the instances 65536 announcements apart got the same routing tag)
        gone = gone or "D"
    if gone:
        ev.append(("line", gone))
    if gap:
        ev.append(("fill", gap - 1))
    same = rng.random() < 0.7
    ev.append(("C", addr if same else rng.choice(["10.0.0.2", "0::2"]), port if same else "4001"))
    second = list(data)
    rng.shuffle(second)
    k = rng.randint(0, 4)
    ev += (second[:k] if ltype == "login" else second)
    ev.append(("line", "P :" + rng.choice(["+x bob wrong", "+! bob wrong"] + ([] if gap else ["- bob wrong"]))))
    late = ("reply", rng.choice(["X", "X", "X", "x"]), "login.srv",
            rng.choice(["OK alice", "OK alice:17", "NO you are banned", "MORE prove it", "AGAIN wait", "OK"]), "stale")
    ev.insert(len(ev) if gap else rng.randint(len(ev) - 1, len(ev)), late)
    if ltype == "login":
        ev += second[k:]
    if rng.random() < 0.6:
        ev.append(("reply", "X", "login.srv", rng.choice(["NO wrong password", "OK bob", "OK"]), "cur"))
    if len(services) > 1:
        ev.append(("reply", "X", "drone.srv", "OK", "cur"))
    ev.append(("line", "H"))
    ops = header(mods, cfg) + render_schedule(rng, {cid: ev}) + [inl("-1 ? :stats"), "eof"]
    return Case(name, ops, tags={"mods": mods})


def midflight_reload_scenario(rng, name, with_stray=True):
    """a reload that removes / renames / retypes services while clients still wait for their
    answers; afterwards a service that was never asked about a client answers with that client's
    tag (stray), and the removed service answers late (legitimate: it still owes the answer)"""
    mods = rng.choice(["xquery", "class"])
    if rng.random() < 0.2:
        # a service that was never asked about the waiting client (a drone check before nick and user
        # name are known) is dropped from in front of the one the client waits for (seeded change
        # C03-8x13 kept the table dense by moving the last entry into the freed slot)
        rules = [("a", [("class", "cls-a")])] if mods == "class" else []
        cfg = Cfg(timeout=rng.choice([0, 0, 30]), services=[("a.srv", "dronecheck"), ("keep.srv", "login")], rules=rules)
        new = Cfg(timeout=cfg.timeout, services=[("keep.srv", "login")] + ([("z.srv", "dronecheck")] if rng.random() < 0.5 else []), rules=rules)
        cid = rng.choice([1, 5, 7, 300])
        tag = sym_tag(cid, 1, "%x_1" % (cid & 0xffffffff))
        first = [("C", rng.choice(["10.0.0.1", "2001:db8::1"]), "4000"), ("line", "N host.example"), ("line", "P :+x alice pw")]
        rest = [("line", "u ident"), ("line", "n nick"), ("line", "U user :real name")]
        ops = header(mods, cfg) + render_schedule(rng, {cid: first}) + [new.op("reload")] + render_schedule(rng, {cid: rest})
        ops.append(inl("-1 X keep.srv %s :%s" % (tag, rng.choice(["OK alice", "OK alice:7", "NO bad password"]))))
        if any(n == "z.srv" for n, _ in new.services):
            ops.append(inl("-1 X z.srv %s :OK" % tag))
        ops += [inl("%d H" % cid), inl("-1 ? :config"), inl("-1 ? :stats"), "eof"]
        return Case(name, ops, tags={"mods": mods})
    a_type = rng.choice(["login", "login-ipr", "combined", "dronecheck"])
    old = [("a.srv", a_type)]
    if rng.random() < 0.4:
        old.append(("keep.srv", rng.choice(["login", "dronecheck"])))
    rules = [("a", [("class", "cls-a")])] if mods == "class" else []
    cfg = Cfg(timeout=rng.choice([0, 0, 30]), services=old, rules=rules)
    new_services = [s for s in old if s[0] != "a.srv"]
    r = rng.random()
    if r < 0.6:
        new_services.insert(0, ("b.srv", rng.choice(["login", "login-ipr", "combined", "dronecheck"])))   # renamed
    elif r < 0.8:
        new_services += [("b.srv", "login"), ("c.srv", "dronecheck")]
    new = Cfg(timeout=cfg.timeout, services=new_services, rules=rules)
    cid = rng.choice([1, 5, 7, 300])
    data = [("line", "N host.example"), ("line", "u ident"), ("line", "n nick"), ("line", "U user :real name")]
    rng.shuffle(data)
    ev = [("C", rng.choice(["10.0.0.1", "2001:db8::1"]), "4000")] + data + [("line", "P :+x alice pw")]
    if rng.random() < 0.3:
        rng.shuffle(ev[1:])
    scripts = {cid: ev}
    other = None
    if rng.random() < 0.4:
        # a second client waits for the same service and leaves (refused, withdrawn, registered) before
        # or after the reload: what it gives back must be its own share only (seeded change C03-8x5
        # released a refused client's reference twice; the service the other one waited for was freed)
        other = rng.choice([c for c in [2, 8, 9, 65535] if c != cid])
        scripts[other] = [("C", "10.0.0.9", "4009")] + list(data) + [("line", "P :+x bob pw")]
    ops = header(mods, cfg) + render_schedule(rng, scripts)
    tag2 = sym_tag(other, 1, "%x_2" % (other & 0xffffffff)) if other is not None else None
    leave = None
    if other is not None:
        leave = rng.choice([inl("-1 X a.srv %s :NO not you" % tag2), inl("-1 X a.srv %s :NO " % tag2), inl("%d D" % other), inl("%d T" % other)])
        if rng.random() < 0.5:
            ops.append(leave)
            leave = None
    ops.append(new.op("reload"))
    if leave:
        ops.append(leave)
    tag = sym_tag(cid, 1, "%x_1" % (cid & 0xffffffff))
    if with_stray and any(n == "b.srv" for n, _ in new_services):
        ops.append(inl("-1 %s b.srv %s :%s" % (rng.choice(["X", "X", "x"]), tag,
                                               rng.choice(["NO banned by b", "OK mallory:1234", "MORE prove", "AGAIN later", "OK"]))))
    if rng.random() < 0.7:
        ops.append(inl("-1 X a.srv %s :%s" % (tag, rng.choice(["OK alice", "OK", "NO bad password", "AGAIN x"]))))
    if rng.random() < 0.5:
        ops.append(inl("-1 X keep.srv %s :OK" % tag))
    ops += [inl("%d H" % cid), inl("-1 ? :config"), inl("-1 ? :stats"), "eof"]
    return Case(name, ops, tags={"mods": mods})


def relogin_scenario(rng, name):
    """a client logs in, then sends another password with other modes before it is registered; the
    +! hold must be taken and released exactly as often as the account and the modes say"""
    mods = rng.choice(["xquery", "class"])
    services = [("login.srv", rng.choice(["login", "login", "login-ipr", "combined"]))]
    if rng.random() < 0.3:
        services.append(("drone.srv", "dronecheck"))
    cfg = Cfg(timeout=rng.choice([0, 0, 30]), services=services,
              rules=[("a", [("class", "cls-a")])] if mods == "class" else [])
    modes = ["+x", "+!", "+x!", "-!", "+", "-x", "+!-!", "-!+!"]
    scripts = {}
    for cid in rng.sample([1, 2, 5, 7], rng.choice([1, 1, 2])):
        data = [("line", "N host.example"), ("line", "u ident"), ("line", "n nick"), ("line", "U user :real name")]
        rng.shuffle(data)
        k = rng.randint(0, 4) if services[0][1] == "login" else 4
        ev = [("C", rng.choice(["1.2.3.4", "0::1"]), "1234")] + data[:k]
        ev.append(("line", "P :%s alice pw1" % rng.choice(modes)))
        ev.append(("reply", "X", "login.srv", rng.choice(["OK alice", "OK alice:17", "OK", "AGAIN later", "OK alice"]), "cur"))
        ev.append(("line", "P :%s %s" % (rng.choice(modes), rng.choice(["alice pw1", "bob pw2"]))))
        if rng.random() < 0.8:
            ev.append(("reply", "X", "login.srv", rng.choice(["OK alice", "OK bob:9", "OK", "NO bad password"]), "cur"))
        if rng.random() < 0.3:
            ev.append(("line", "P :%s alice pw1" % rng.choice(modes)))
            ev.append(("reply", "X", "login.srv", rng.choice(["OK alice", "OK"]), "cur"))
        ev += data[k:]
        if len(services) > 1:
            ev.append(("reply", "X", "drone.srv", "OK", "cur"))
        if cfg.timeout and rng.random() < 0.4:
            ev.insert(rng.randint(2, len(ev)), ("timeout",))
        ev.append(("line", "H"))
        scripts[cid] = ev
    ops = header(mods, cfg) + render_schedule(rng, scripts) + [inl("-1 ? :stats"), "eof"]
    return Case(name, ops, tags={"mods": mods})


def challenge_scenario(rng, name):
    """login flows with challenges: password early, MORE / AGAIN, challenge responses, data
    completing before or after the final answer, timeouts in between"""
    mods = rng.choice(["xquery", "class"])
    services = [("login.srv", rng.choice(["login", "login", "login-ipr", "combined"]))]
    if rng.random() < 0.4:
        services.append(("ipr.srv", rng.choice(["login", "dronecheck", "login-ipr"])))
    cfg = Cfg(timeout=rng.choice([0, 30]), services=services,
              rules=[("a", [("class", "cls-a")])] if mods == "class" else [])
    scripts = {}
    for cid in rng.sample([1, 2, 5, 7], rng.choice([1, 1, 2])):
        data = [("line", "N host.example"), ("line", "u ident"), ("line", "n nick"), ("line", "U user :real name")]
        rng.shuffle(data)
        pw = ("line", "P :" + rng.choice(["+x acct pass", "+! acct pass", "+x! acct pass", "-! acct pass", "+ acct pass", "-x acct pass"]))
        k = rng.randint(0, len(data))
        ev = [("C", rng.choice(["1.2.3.4", "0::1"]), "1234")] + data[:k] + [pw]
        rest = data[k:]
        flow = []
        prev_text = None
        for _ in range(rng.choice([1, 1, 2, 2])):
            text = rng.choice(["MORE challenge", "MORE c2", "AGAIN retry", "MORE 50%d off %u", "AGAIN 100%% sure",
                               "MORE %s%s%n", "AGAIN " + "q" * rng.choice([900, 1000, 1100])])
            if prev_text is not None and rng.random() < 0.5:
                # the same prompt a second time is a second prompt (seeded change C05-5 dropped a
                # notice identical to the one before it)
                text = prev_text
            prev_text = text
            flow.append(("reply", "X", "login.srv", text, "cur"))
            flow.append(("line", "P :" + rng.choice(["response", "+x acct pass2", "-! acct pass"])))
        flow.append(("reply", "X", "login.srv", rng.choice(["OK acct", "OK", "NO bad", "OK acct:1"]), "cur"))
        if rng.random() < 0.4:
            # logs in a second time (other modes) and is vouched again
            flow.append(("line", "P :" + rng.choice(["+x acct pass2", "+! acct pass2", "-x acct pass2"])))
            flow.append(("reply", "X", "login.srv", rng.choice(["OK acct", "OK acct2:5", "OK"]), "cur"))
        # the remaining data items arrive somewhere inside the flow
        for item in rest:
            flow.insert(rng.randint(0, len(flow)), item)
        ev += flow
        if cfg.timeout and rng.random() < 0.4:
            ev.insert(rng.randint(1, len(ev)), ("timeout",))
        for svc, _t in services[1:]:
            ev.insert(rng.randint(2, len(ev)), ("reply", "X", svc, rng.choice(["OK", "OK acct2", "AGAIN x"]), "cur"))
        if rng.random() < 0.3:
            ev.append(("line", "H"))
        scripts[cid] = ev
    ops = header(mods, cfg) + render_schedule(rng, scripts)
    if cfg.timeout and rng.random() < 0.5:
        ops.insert(rng.randint(header_len_ops(ops), len(ops)), "elapse")
        ops.append("elapse")
    ops.append("eof")
    return Case(name, ops, tags={"mods": mods})


LOGS_SECTIONS = [[], [("*.>=info", "file:all.log")], [("iauth.*", "file:iauth.log"), ("core.*", "file:core.log")],
                 [("config.debug", "file:dbg.log")], [("*.*", "file:a.log"), ("config.>=warning", "file:b.log")]]
BROKEN_CONFS = ["iauth {\n timeout 5\n", "iauth_xquery { a ( b, c }\n", "\"unterminated", "iauth { timeout } }\n", "x y z w;\n", "a { b ( c d ) }\n"]


def noisy_scenario(rng, name):
    """C09: events that make the daemon log warnings and errors (failed reloads, bad info requests,
    unparsable typed values, garbage lines) under every kind of logs section, outside debug mode"""
    mods = rng.choice(["core", "xquery", "class"])
    cfg = rand_cfg(rng, mods)
    cfg.logs = rng.choice(LOGS_SECTIONS)
    ids = rng.sample([1, 2, 5, 7], 2)
    scripts = {cid: client_script(rng, cid, cfg, mods) for cid in ids}
    ops = render_schedule(rng, scripts)
    # where the noise goes is drawn first; the texts are made in history order because an unparsable
    # typed value leaves in force whatever the *previous* reload established
    spots = sorted(rng.randint(0, len(ops)) for _ in range(rng.randint(1, 4)))
    eff = cfg.timeout
    made = []
    for pos in spots:
        r = rng.random()
        if r < 0.4:
            made.append((pos, "reload %s bad=1" % hx(rng.choice(BROKEN_CONFS))))
        elif r < 0.6:
            made.append((pos, inl("-1 ? " + rng.choice(["bogus", ":what now", "STATS"]))))
        elif r < 0.8:
            bad = Cfg(timeout=eff, services=cfg.services, rules=cfg.rules, logs=cfg.logs)
            val = rng.choice(["soon", "1x", "\"\""])
            txt = bad.text().replace("timeout %d;" % eff, "timeout %s;" % val)
            if val == "\"\"":
                # the empty text is a valid interval (no components: 0 seconds), not an unparsable one
                bad.timeout = eff = 0
            made.append((pos, "reload %s %s" % (hx(txt), bad.fields())))
        else:
            made.append((pos, inl(rng.choice(MALFORMED))))
    for pos, line in reversed(made):
        ops.insert(pos, line)
    return Case(name, header(mods, cfg) + ops + ["eof"], tags={"mods": mods})


def hidden_only_scenario(rng, name):
    """C02/C05: clients that demand +! (accepted only with an account stamp) against services whose
    answers carry an account of boundary length, no account, or none of the final kinds"""
    mods = rng.choice(["xquery", "class"])
    services = [("login.srv", rng.choice(["login", "login", "login-ipr", "combined"]))]
    if rng.random() < 0.4:
        services.append(("ipr.srv", rng.choice(["login", "login-ipr", "dronecheck"])))
    cfg = Cfg(timeout=rng.choice([0, 0, 30]), services=services,
              rules=[("a", [("class", "cls-a"), ("account", "*")]), ("b", [("class", "users")])] if mods == "class" else [])
    scripts = {}
    for cid in rng.sample([1, 5, 7, 300, 0, -2], rng.choice([1, 1, 2])):
        data = [("line", "N host.example"), ("line", "u ident"), ("line", "n nick"), ("line", "U user :real name"),
                ("line", "P :" + rng.choice(["+! acct pass", "+x! acct pass", "+!x acct pass", "-x+! acct pass", "+! a b", "+! acct ", "+!  acct  "]))]
        rng.shuffle(data)
        ev = [("C", rng.choice(CADDRS), "1234")] + data
        for svc, _t in services:
            n = rng.choice([1, 10, 63, 64, 65, 66, 70, 200])
            text = rng.choice(["OK " + "a" * n, "OK " + "b" * n + ":17", "OK " + "c" * n + " trailing words", "OK", "OK ", "OK  two",
                               "NO go away", "NO ", "NO  ", "NO \t", "AGAIN later", "AGAIN ", "MORE prove it", "MORE ", "BOGUS"])
            ev.insert(rng.randint(len(ev) - 1, len(ev)), ("reply", rng.choice(["X"] * 6 + ["x"]), svc, text, "cur"))
        if rng.random() < 0.5:
            # whatever was said first, the same services speak again (a refusal is final: seeded
            # change C02-7 lost `NO ` with an empty reason and accepted on the later OK / timeout)
            for svc, _t in services:
                ev.append(("reply", "X", svc, rng.choice(["OK", "OK acct", "OK acct:5"]), "cur"))
        if rng.random() < 0.3:
            ev.append(("line", "P :" + rng.choice(["-! acct pass", "+x acct pass", "answer"])))
        if cfg.timeout and rng.random() < 0.5:
            ev.insert(rng.randint(1, len(ev)), ("timeout",))
        ev.append(("line", "H"))
        scripts[cid] = ev
    return Case(name, header(mods, cfg) + render_schedule(rng, scripts) + [inl("-1 ? :stats"), "eof"], tags={"mods": mods})


def gen_cases(prop, tier, seed):
    global SPLIT_LONG
    SPLIT_LONG = prop in ("C01", "C02", "C03", "C05", "C06", "C09", "C10", "C11")
    try:
        return _gen_cases(prop, tier, seed)
    finally:
        SPLIT_LONG = False


def _gen_cases(prop, tier, seed):
    rng = core.rng_for(seed, "proto-" + prop)
    quick = tier == "quick"
    cases = []
    if prop == "C04":
        n = 350 if quick else 6000
        for i in range(n):
            if i % 10 == 7:
                # a reload while an answer is outstanding, then an answer from a service that was
                # never asked (seeded change C04-3: the newcomer took the departed service's slot)
                sub = random.Random(rng.getrandbits(32))
                base = midflight_reload_scenario(sub, "c04/%d/base" % i)
                body0 = base.body()
                lat = [q for q, l in enumerate(body0) if l.startswith("in ") and b" b.srv " in unhx(l.split(" ")[1])
                       and unhx(l.split(" ")[1]).startswith(b"-1 ")]
                if lat:
                    q = lat[0]
                    cases.append(Case("c04/%d/unasked" % i, body0, tags={"group": "c04/%d" % i, "role": "variant", "pos": q,
                                                                          "mods": base.tags["mods"]}))
                    base = Case(base.name, body0[:q] + body0[q + 1:], tags=dict(base.tags))
            elif i % 5 == 4:
                base = reuse_scenario(rng, "c04/%d/base" % i, gap=(65536 if i in (4, 14) or i % 1000 == 999 else 256 if i % 50 == 9 else None))
                # the late answer is the stray line of this pair: base = the history without it
                body0 = base.body()
                lat = [q for q, l in enumerate(body0) if l.startswith("in ") and b"@T" in unhx(l.split(" ")[1])
                       and b"#1|" in unhx(l.split(" ")[1])]
                if lat:
                    q = lat[0]
                    cases.append(Case("c04/%d/late" % i, body0, tags={"group": "c04/%d" % i, "role": "variant", "pos": q,
                                                                       "mods": base.tags["mods"]}))
                    base = Case(base.name, body0[:q] + body0[q + 1:], tags=dict(base.tags))
            else:
                base = scenario(rng, "c04/%d/base" % i, mods=rng.choice(["xquery", "class"]))
            base.tags.update(group="c04/%d" % i, role="base")
            cases.append(base)
            body = base.body()
            hl = header_len(base) - 1
            positions = [rng.randint(hl, len(body) - 1) for _ in range(2 if quick else 6)]
            cfgop = [l for l in body if l.startswith("conf ")][0]
            cfg = _cfg_from_fields(cfgop)
            for k, p in enumerate(positions):
                for j, r in enumerate(stray_replies(rng, body, p, cfg)):
                    lines = body[:p] + [inl(r)] + body[p:]
                    cases.append(Case("c04/%d/ins%d_%d" % (i, k, j), lines,
                                      tags={"group": "c04/%d" % i, "role": "variant", "pos": p, "mods": base.tags["mods"]}))
            # a second answer directly after a final answer, same service and routing tag: whether the
            # first one was applied or was stray itself, the service owes nothing at that point
            reps = [q for q in range(hl, len(body)) if body[q].startswith("in 2d31205820") or body[q].startswith("in 2d31207820")]
            for k, q in enumerate(rng.sample(reps, min(len(reps), 2 if quick else 4))):
                t = unhx(body[q].split(" ")[1]).rstrip(b"\n").split(b" ")
                if len(t) < 5 or b"\n" in unhx(body[q].split(" ")[1]).rstrip(b"\n"):
                    continue
                first = b" ".join(t[4:])[1:] if t[4].startswith(b":") else t[4]
                # only after a *final* answer (or an unlinked notice): an unknown reply text is
                # ignored by the daemon and leaves the service owing its answer
                if t[1] == b"X" and not (first == b"OK" or first.startswith((b"OK ", b"NO ", b"AGAIN ", b"MORE "))):
                    continue
                if len([x for x in t if x]) < 5:
                    continue      # no text parameter at all: the line is dropped by the argument count check
                for j, text in enumerate(rng.sample(["OK", "OK other:7", "NO second opinion", "AGAIN again", "MORE more"], 2)):
                    dup = b" ".join(t[:4]) + b" :" + text.encode()
                    lines = body[:q + 1] + ["in " + hx(dup + b"\n")] + body[q + 1:]
                    cases.append(Case("c04/%d/dup%d_%d" % (i, k, j), lines,
                                      tags={"group": "c04/%d" % i, "role": "variant", "pos": q + 1, "mods": base.tags["mods"]}))
        return cases
    if prop == "C07":
        n = 220 if quick else 4000
        for i in range(n):
            mods = rng.choice(["xquery", "class", "core"])
            cfg = rand_cfg(rng, mods)
            if i % 4 == 3:
                # ids further apart than INT_MAX: the request table's comparator must stay a total
                # order over the whole 32-bit range (seeded change C07-2 needs three such clients)
                ids = rng.sample([-2147483648, -2147483000, -5, 0, 7, 2147483000, 2147483647], rng.choice([3, 3, 4]))
            else:
                ids = rng.sample([1, 2, 5, 7, 300, 65535], rng.choice([2, 3, 4]))
            scripts = {cid: client_script(rng, cid, cfg, mods) for cid in ids}
            if i % 5 == 4:
                # per-client module state: a rule that asks whether a service vouched, clients of which
                # one is vouched for and the next hears that the service is gone (or hears nothing until
                # the timer lets it in).  What the later client is told must not depend on the earlier
                # one having been there (seeded change C07-5: state block from malloc, one field unset)
                mods = "class"
                svc = rng.choice(["drone.srv", "login.srv"])
                cfg = Cfg(timeout=30, services=[(svc, "dronecheck" if svc == "drone.srv" else "login")],
                          rules=[("a", [("class", "cls-a"), ("xreply_ok", svc)]), ("b", [("class", "users")])])
                ids = rng.sample([1, 2, 5, 7, 300, 65535], rng.choice([2, 3]))
                scripts = {}
                for n_, cid in enumerate(ids):
                    ev = [("C", rng.choice(CADDRS), "1234"), ("line", "N host.example"), ("line", "u ident"),
                          ("line", "n nick"), ("line", "U user :real name")]
                    if svc == "login.srv":
                        ev.insert(rng.randint(1, len(ev)), ("line", "P :+x acct pass"))
                    fate = "ok" if n_ == 0 else rng.choice(["gone", "silent", "ok", "no"])
                    if fate == "ok":
                        ev.append(("reply", "X", svc, "OK acct" if svc == "login.srv" else "OK", "cur"))
                    elif fate == "gone":
                        ev.append(("reply", "x", svc, "unlinked", "cur"))
                    elif fate == "no":
                        ev.append(("reply", "X", svc, "NO not welcome", "cur"))
                    else:
                        ev.append(("timeout",))
                    ev.append(("line", "H"))
                    scripts[cid] = ev
            if i % 7 == 6 and i % 5 != 4 and len(ids) >= 2:
                # an over-long line of one client that reaches the daemon in two reads and whose tail
                # reads like a command for another client (seeded change C07-6 dropped the buffered
                # head of such a line and then parsed the tail as a line of its own)
                a, other = ids[0], ids[1]
                tail_ = " %d %s" % (other, rng.choice(["D", "D", "T", "H", "P :+x acct pass"]))
                text = rng.choice(["P :", "U user :", "N "]) + "x" * rng.choice([1030, 1100, 4200]) + tail_
                ev = list(scripts[a])
                ev.insert(rng.randint(1, len(ev)), ("split", text, len(tail_)))
                scripts[a] = ev
            # C07 quantifies over clients on distinct ids whose own order is preserved
            for k in range((4 if i % 5 == 4 else 2) if quick else 4):
                ops = header(mods, cfg) + render_schedule(rng, scripts) + ["eof"]
                cases.append(Case("c07/%d/all%d" % (i, k), ops, tags={"group": "c07/%d" % i, "role": "all", "mods": mods}))
            if not cfg.timeout and not any(e[0] == "timeout" for ev in scripts.values() for e in ev):
                # the whole interleaving in one write of more than one read's worth (4096 bytes), led by
                # a long line for a client nobody announced (seeded change C07-7 registered the input
                # event edge-triggered: what one read left in the pipe stayed there)
                sched = render_schedule(rng, scripts)
                if all(l.startswith("in ") for l in sched):
                    burst = b"99 N " + b"x" * 5000 + b"\n" + b"".join(unhx(l.split(" ")[1]) for l in literal_tags(sched))
                    cases.append(Case("c07/%d/burst" % i, header(mods, cfg) + ["in " + hx(burst), "eof"],
                                      tags={"group": "c07/%d" % i, "role": "all", "mods": mods}))
            if i % 5 == 4:
                # one client after the other, each finished before the next is announced
                ops = header(mods, cfg)
                for cid in ids:
                    ops += render_schedule(rng, {cid: scripts[cid]})
                cases.append(Case("c07/%d/seq" % i, ops + ["eof"], tags={"group": "c07/%d" % i, "role": "all", "mods": mods}))
            for cid in ids:
                ops = header(mods, cfg) + render_schedule(rng, {cid: scripts[cid]}) + ["eof"]
                cases.append(Case("c07/%d/only%d" % (i, cid), ops, tags={"group": "c07/%d" % i, "role": "only", "cid": cid, "mods": mods}))
        return cases
    if prop == "C08":
        n = 350 if quick else 8000
        for i in range(n):
            if i % 3 == 2:
                cases.append(malformed_case(rng, "mal/%d" % i))
                continue
            if i % 50 == 13:
                # texts that are relayed to the other side at and beyond the size of the output buffer:
                # a service's AGAIN / MORE / NO text, a client's answer to a challenge (seeded change
                # C08-2 wrote the would-be length of the formatted line)
                big = lambda: "q" * rng.choice([990, 1000, 1010, 1023, 1024, 1100, 3000])
                big = lambda: "q" * rng.choice([1010, 1023, 1024, 1100, 3000])
                ev = [("C", "1.2.3.4", "1234"), ("line", "N host.example"), ("line", "u ident"), ("line", "n nick"),
                      ("line", "P :+x acct pass"),
                      ("reply", "X", "login.srv", rng.choice(["MORE ", "AGAIN "]) + big(), "cur"),
                      ("line", "P :" + big()),
                      ("reply", "X", "login.srv", rng.choice(["NO ", "AGAIN ", "MORE "]) + big(), "cur"),
                      ("line", "U user :real name"), ("line", "H")]
                cfg_ = Cfg(timeout=0, services=[("login.srv", rng.choice(["login", "combined", "login-ipr"]))], rules=[])
                cases.append(Case("c08/%d/bigtext" % i, header("xquery", cfg_) + render_schedule(rng, {5: ev}) + ["eof"],
                                  tags={"mods": "xquery"}))
                continue
            base = scenario(rng, "c08/%d/base" % i, nclients=(rng.choice([6, 8]) if i % 4 == 0 else None))
            # chunking and junk variants are compared on the `in` stream only: no timeouts in between
            # (symbolic routing tags are written out: the byte stream is cut at arbitrary offsets)
            body = literal_tags([l for l in base.body() if not l.startswith("timeout ") and l != "elapse"])
            base = Case(base.name, body, tags=dict(base.tags, group="c08/%d" % i, role="base"))
            cases.append(base)
            hl = header_len(base) - 1
            head, ins = body[:hl], [l for l in body[hl:] if l.startswith("in ")]
            stream = b"".join(unhx(l.split(" ")[1]) for l in ins)
            # every-which-way segmentation of the same byte stream
            for k in range(2):
                cuts = sorted(set(rng.randint(0, len(stream)) for _ in range(rng.choice([1, 3, 10, 40]))))
                chunks, prev = [], 0
                for c in cuts + [len(stream)]:
                    if c > prev:
                        chunks.append(stream[prev:c])
                        prev = c
                cases.append(Case("c08/%d/chunk%d" % (i, k), head + ["in " + hx(c) for c in chunks] + ["eof"],
                                  tags={"group": "c08/%d" % i, "role": "chunk"}))
            # the whole stream in a single write (a burst from the server)
            for off in range(0, len(stream), 60000):
                pass
            cases.append(Case("c08/%d/burst" % i, head + ["in " + hx(stream[o:o + 60000]) for o in range(0, max(len(stream), 1), 60000)] + ["eof"],
                              tags={"group": "c08/%d" % i, "role": "chunk"}))
            # peer death at a random byte: a prefix of the stream, then end of input
            cut = rng.randint(0, len(stream))
            cases.append(Case("c08/%d/prefix" % i, head + ["in " + hx(stream[:cut])] + ["eof"],
                              tags={"group": "c08/%d" % i, "role": "prefix", "cut": cut}))
            # junk lines mixed in
            mixed, marks = [], []
            for l in ins:
                if rng.random() < 0.3:
                    mixed.append(inl(rng.choice(JUNK)))
                    marks.append(len(mixed) - 1)
                raw = unhx(l.split(" ")[1])
                if raw.startswith((b"-1 X ", b"-1 x ")) and raw.count(b"\n") == 1 and rng.random() < 0.5:
                    # a malformed reply that is addressed exactly like the real one that follows:
                    # same service and routing tag, but cut off before its text parameter
                    t = raw.rstrip(b"\n").split(b" ")
                    if len(t) >= 5:
                        mixed.append(inl(b" ".join(t[:4]) + rng.choice([b"", b" "])))
                        marks.append(len(mixed) - 1)
                mixed.append(l)
            cases.append(Case("c08/%d/junk" % i, head + mixed + ["eof"],
                              tags={"group": "c08/%d" % i, "role": "junk", "junk": marks, "hl": hl}))
        return cases
    if prop == "C17":
        n = 180 if quick else 3000
        # the witness of F33 (fixed), every run: a rule without a class value whose name changes only in
        # letter case; on the pinned tree the client was given the name as the *old* file spelled it
        w_old = Cfg(timeout=0, services=[], rules=[("Users", [("address", "*")])])
        w_new = Cfg(timeout=0, services=[], rules=[("users", [("address", "*")])])
        w_ops = [inl("5 C 1.2.3.4 1234 0::1 6667"), inl("5 N host.example"), inl("5 u ident"), inl("5 n nick"),
                 inl("5 U user :real name"), inl("5 H")]
        cases.append(Case("c17/f33/reload", header("class", w_old) + [w_new.op("reload")] + w_ops + ["eof"],
                          tags={"group": "c17/f33", "role": "reload", "mods": "class", "nreload": 1}))
        cases.append(Case("c17/f33/fresh", header("class", w_new) + w_ops + ["eof"],
                          tags={"group": "c17/f33", "role": "fresh", "mods": "class"}))
        for i in range(n):
            mods = rng.choice(["xquery", "class", "class"])
            old = rand_cfg(rng, mods, timeout=0)
            # one, two or three reloads in a row (an entry added by one reload and edited by the next)
            chain = [mutate_cfg(rng, old, mods)]
            for _ in range(rng.choice([0, 0, 1, 1, 2])):
                chain.append(mutate_cfg(rng, chain[-1], mods))
            if mods == "class" and i % 3 == 0:
                # a criterion (or a service) that one reload adds and the next one edits in place
                base = chain[0]
                rules = [(n, list(kv)) for n, kv in base.rules] or [("a", [("class", "cls-a")])]
                k = rng.randrange(len(rules))
                crit, v1, v2 = rng.choice([("hostname", "nomatch", "*"), ("hostname", "*", "nomatch"), ("username", "nomatch", "*"),
                                           ("address", "9.9.9.9", "*"), ("class", "one", "two"), ("account", "nomatch", "*"),
                                           # edits that change nothing but letter case: patterns and class
                                           # names are case-sensitive (seeded change C17-2)
                                           ("hostname", "HOST.EXAMPLE", "host.example"), ("hostname", "host.example", "HOST.example"),
                                           ("class", "Lan", "lan"), ("class", "lan", "LAN"),
                                           ("username", "IDENT", "ident"), ("account", "ACCT", "acct")])
                n, kv = rules[k]
                kv0 = [x for x in kv if x[0] != crit]
                r0, r1, r2 = list(rules), list(rules), list(rules)
                r0[k] = (n, kv0)
                r1[k] = (n, kv0 + [(crit, v1)])
                r2[k] = (n, kv0 + [(crit, v2)])
                mk = lambda rs: Cfg(timeout=0, services=base.services, rules=rs)
                old, chain = mk(r0), [mk(r1), mk(r2)]
            focused = mods == "class" and i % 6 == 3
            if focused:
                # one rule, one criterion edited in place (value changed, or only its letter case), and
                # probe clients that the rule is about
                focus_variants = ([("hostname", "HOST.EXAMPLE", "host.example"), ("hostname", "host.example", "Host.example"),
                                           ("hostname", "nomatch", "host.example"), ("class", "Lan", "lan"), ("class", "lan", "LAN"),
                                           ("username", "IDENT", "ident"), ("username", "ident", "Ident"),
                                           ("account", "ACCT", "acct"), ("account", "acct", "Acct"), ("account", "nomatch", "acct"),
                                           # a criterion that the new file simply no longer has (seeded change
                                           # C11-4 reloaded the touched rule in place over its old compiled state)
                                           ("address", "9.9.9.9", None), ("address", "10.0.0.0/8", None), ("hostname", "nomatch", None),
                                           ("username", "nomatch", None), ("account", "nomatch", None), ("address", "9.9.9.9", "1.2.3.4"),
                                           ("trust_username", "yes", None), ("trust_username", "no", "yes")])
                # every variant in every run: the family walks through the list (a random draw left a
                # particular variant out of a quick run about one time in ten)
                crit, v1, v2 = focus_variants[(i // 6 + seed) % len(focus_variants)]
                kv0 = [("class", "cls-a")] if crit != "class" else []
                svcs = [("login.srv", "login")]
                mk = lambda kv: Cfg(timeout=0, services=svcs, rules=[("a", [x for x in kv if x[1] is not None]), ("z", [("class", "fallback")])])
                old, chain = mk(kv0 + [(crit, v1)]), [mk(kv0 + [(crit, v2)])]
                if rng.random() < 0.4:
                    old, chain = mk(kv0), [mk(kv0 + [(crit, v1)]), mk(kv0 + [(crit, v2)])]
            new = chain[-1]
            probe = {cid: client_script(rng, cid, new, mods) for cid in rng.sample([1, 2, 5, 7], 2)}
            if focused:
                ev = [("C", "1.2.3.4", "1234"), ("line", "N host.example"), ("line", "u ident"), ("line", "n nick"),
                      ("line", "U user :real name"), ("line", "P :+x acct pass"), ("reply", "X", "login.srv", "OK acct", "cur"), ("line", "H")]
                probe = {9: ev}
            pops = render_schedule(rng, probe) + [inl("-1 ? :config")]
            if rng.random() < 0.5:
                # a statistics request while the probe clients are under way (seeded change C17-9x9
                # sorted the service table in place for the report)
                pops.insert(rng.randint(0, len(pops) - 1), inl("-1 ? :stats"))
            pre = []
            if i % 6 == 5 and old.services:
                # a client whose query is still unanswered when the reload arrives: the new file applies
                # to everybody who comes afterwards all the same (seeded change C17-4 put off a protocol
                # change while the service had references)
                pev = [("C", "10.9.9.9", "999"), ("line", "N wait.example"), ("line", "u ident"), ("line", "n waiter"),
                       ("line", "U waiter :still waiting"), ("line", "P :+x alice pw")]
                pre = render_schedule(rng, {9: pev})
                if rng.random() < 0.5:
                    pre.append(inl("-1 ? :stats"))
                # literal routing tags assume the serials of a run without the waiting client
                probe = {cid: [e for e in ev if not (e[0] == "reply" and e[4] not in ("cur", "stale"))] for cid, ev in probe.items()}
                pops = render_schedule(rng, probe) + [inl("-1 ? :config")]
                if i % 12 == 5:
                    # … and the reload changes the protocol of that very service in place
                    k = rng.randrange(len(old.services))
                    svc2 = list(new.services) if [n for n, _ in new.services] == [n for n, _ in old.services] else list(old.services)
                    k = min(k, len(svc2) - 1)
                    svc2[k] = (svc2[k][0], rng.choice([t for t in SVC_TYPES if t != dict(old.services).get(svc2[k][0])]))
                    new = Cfg(timeout=0, services=svc2, rules=new.rules)
                    chain = chain[:-1] + [new]
                    probe = {cid: client_script(rng, cid, new, mods) for cid in rng.sample([1, 2, 5, 7], 2)}
                    probe = {cid: [e for e in ev if not (e[0] == "reply" and e[4] not in ("cur", "stale"))] for cid, ev in probe.items()}
                    pops = render_schedule(rng, probe) + [inl("-1 ? :config")]
            if i % 12 == 4:
                # a rule that asks whether a service vouched, while the file does not name that service
                # yet; a client is served in that state; then a reload adds the service (seeded change
                # C17-12x12 remembered "no such service" for the last name looked up)
                mods = "class"
                late, other = rng.choice([("vouch.srv", "b.srv"), ("alpha.srv", "zeta.srv"), ("login.srv", "drone.srv")])
                ty = rng.choice(["dronecheck", "login"])
                rules = [("a", [("class", "members"), ("xreply_ok", late)]), ("z", [("class", "users")])]
                old = Cfg(timeout=0, services=[(other, "dronecheck")], rules=rules)
                new = Cfg(timeout=0, services=sorted([(other, "dronecheck"), (late, ty)]), rules=rules)
                chain = [new]
                data = [("line", "N host.example"), ("line", "u ident"), ("line", "n nick"), ("line", "U user :real name")]
                pev = [("C", "10.9.9.9", "999")] + data + [("reply", "X", other, "OK", "cur"), ("line", "H")]
                pre = render_schedule(rng, {9: pev})
                probe = {}
                for cid in rng.sample([1, 2, 5, 7], 2):
                    ev = [("C", rng.choice(CADDRS), "1234")] + data
                    if ty == "login":
                        ev.insert(1, ("line", "P :+x acct pass"))
                    ev += [("reply", "X", late, "OK acct" if ty == "login" else "OK", "cur"), ("reply", "X", other, "OK", "cur"), ("line", "H")]
                    probe[cid] = ev
                pops = render_schedule(rng, probe) + [inl("-1 ? :config")]
            if i % 12 == 2 or i % 12 == 10:
                # a protocol word the module does not know (a typing slip: the entry is listed, its
                # service is dropped again) that the next file corrects in place - and nothing else
                # changes, so only that entry's own hook runs (seeded change C17-10x2 let the entry hook
                # update the service it found by name and left adding to the section's hook) - or the
                # other way round
                mods = rng.choice(["xquery", "class"])
                others = [(n_, rng.choice(SVC_TYPES)) for n_ in rng.sample(["login.srv", "ipr.srv", "combo.srv"], rng.choice([0, 1, 2]))]
                good = rng.choice(["dronecheck", "dronecheck", "login", "combined"])
                bad = rng.choice(["dronechek", "login_ipr", "bogus", "DRONE", ""])
                v1, v2 = (bad, good) if i % 12 == 2 or rng.random() < 0.7 else (good, bad)
                rules = [("a", [("class", "cls-a")])] if mods == "class" else []
                mk = lambda v: Cfg(timeout=0, services=sorted(others + [("drone.srv", v)]), rules=rules)
                old, chain = mk(v1), [mk(v2)]
                if rng.random() < 0.3:
                    chain = [mk(v1), mk(v2)] if rng.random() < 0.5 else [mk(v2), mk(v1), mk(v2)]
                new = chain[-1]
                pre = []
                probe = {cid: client_script(rng, cid, new, mods) for cid in rng.sample([1, 2, 5, 7], 2)}
                pops = render_schedule(rng, probe) + [inl("-1 ? :config")]
            if i % 6 == 1:
                # a reload that touches only the services while a rule of the *other* module names one of
                # them: whatever that module remembered about the service table while serving an earlier
                # client (seeded change C17-5 cached the slot number) must not outlive the table
                mods = "class"
                names = rng.sample(["alpha.srv", "beta.srv", "gamma.srv", "delta.srv"], 3)
                a_, b_, g_ = names
                mk = lambda ns: Cfg(timeout=0, services=[(n_, "dronecheck") for n_ in ns],
                                    rules=[("a", [("class", "members"), ("xreply_ok", a_)]), ("z", [("class", "users")])])
                old = mk([a_, b_])
                chain = [mk([b_, g_])] + ([mk([a_, b_, g_])] if rng.random() < 0.5 else [])
                new = chain[-1]
                data = [("line", "N host.example"), ("line", "u ident"), ("line", "n nick"), ("line", "U user :real name")]
                pev = [("C", "10.9.9.9", "999")] + data + [("reply", "X", a_, "OK", "cur"), ("reply", "X", b_, "OK", "cur"), ("line", "H")]
                pre = render_schedule(rng, {9: pev})
                if rng.random() < 0.5:
                    pre.append(inl("-1 ? :stats"))
                probe = {}
                for cid in rng.sample([1, 2, 5, 7], 2):
                    ev = [("C", rng.choice(CADDRS), "1234")] + data
                    for n_, _t in new.services:
                        ev.append(("reply", "x", n_, "unlinked", "cur") if rng.random() < 0.4 else ("reply", "X", n_, "OK", "cur"))
                    probe[cid] = ev + [("line", "H")]
                pops = render_schedule(rng, probe) + [inl("-1 ? :config")]
            if i % 12 == 7:
                # a reload that puts a new service into a slot after one whose name sorts later, a
                # client that waits for only one of them, a report in between, then the answer
                # (seeded change C17-9x9 sorted the table in place for the statistics report)
                mods = rng.choice(["xquery", "class"])
                late_name, early_name = rng.choice([("m.srv", "a.srv"), ("zeta.srv", "alpha.srv"), ("drone.srv", "combo.srv")])
                old = Cfg(timeout=0, services=[(late_name, "dronecheck")], rules=[("a", [("class", "cls-a")])] if mods == "class" else [])
                new = Cfg(timeout=0, services=[(early_name, rng.choice(["login", "login-ipr"])), (late_name, "dronecheck")], rules=old.rules)
                chain, pre = [new], []
                ev = [("C", "1.2.3.4", "1234"), ("line", "N host.example"), ("line", "u ident"), ("line", "n nick"), ("line", "U user :real name")]
                pops = render_schedule(rng, {5: ev}) + [inl("-1 ? :stats")] + render_schedule(rng, {5: [("reply", "X", late_name, "OK", "cur")]})
                # the second schedule does not know the first one's serial: spell the tag out
                pops[-1] = inl("-1 X %s %s :OK" % (late_name, sym_tag(5, 1, "5_1")))
                pops += [inl("5 H"), inl("-1 ? :config")]
            cases.append(Case("c17/%d/reload" % i, header(mods, old) + pre + [c.op("reload") for c in chain] + pops + ["eof"],
                              tags={"group": "c17/%d" % i, "role": "reload", "mods": mods, "nreload": len(chain) + len(pre)}))
            cases.append(Case("c17/%d/fresh" % i, header(mods, new) + pops + ["eof"],
                              tags={"group": "c17/%d" % i, "role": "fresh", "mods": mods}))
        return cases
    n = 900 if quick else 30000
    for i in range(n):
        if i % 5 == 4 and prop not in ("C06", "C11"):
            cases.append(malformed_case(rng, "mal/%d" % i))
        elif prop == "C11":
            cases.append(class_scenario(rng, "cls/%d" % i) if i % 4 else scenario(rng, "scn/%d" % i, mods="class"))
        elif prop == "C06":
            cases.append(scenario(rng, "scn/%d" % i, mods=rng.choice(["xquery", "class"])) if i % 6 else challenge_scenario(rng, "chl/%d" % i))
        elif prop == "C09" and i % 3 == 1:
            cases.append(noisy_scenario(rng, "noisy/%d" % i))
        elif prop in ("C02", "C03", "C05", "C01", "C10") and i % 5 == 2:
            cases.append(challenge_scenario(rng, "chl/%d" % i))
        elif prop in ("C01", "C02", "C03", "C05") and i % 10 == 1:
            cases.append(relogin_scenario(rng, "relogin/%d" % i))
        elif prop in ("C02", "C03", "C05") and i % 10 == 5:
            cases.append(hidden_only_scenario(rng, "bang/%d" % i))
        elif prop in ("C01", "C02", "C04", "C05", "C10") and i % 10 == 6:
            cases.append(reuse_scenario(rng, "reuse/%d" % i))
        elif prop in ("C01", "C02", "C03", "C05", "C10", "C17") and i % 10 == 8:
            cases.append(midflight_reload_scenario(rng, "midflight/%d" % i))
        elif prop in ("C01", "C02", "C03", "C05", "C09", "C10") and i % 10 == 3:
            # rule tables with trust_username against '~' idents: the class module calls back into
            # the core from inside iauth_accept (seeded change C01-2)
            cases.append(class_scenario(rng, "cls/%d" % i))
        else:
            cases.append(scenario(rng, "scn/%d" % i))
    return cases


def mutate_cfg(rng, cfg, mods):
    """a related configuration: add / remove / change entries in place"""
    services = list(cfg.services)
    rules = [(n, list(kv)) for n, kv in cfg.rules]
    if rng.random() < 0.12:
        # a whole section disappears from the file (header and all), or is emptied
        out = Cfg(timeout=cfg.timeout, services=[] if rng.random() < 0.6 else services,
                  rules=[] if (mods == "class" and rng.random() < 0.7) else rules)
        out.drop_empty = rng.random() < 0.75
        return out
    if rng.random() < 0.08 and (rules or services):
        # only the letter case of a name changes (F33: the merge kept the old spelling, so a rule's
        # name used as class, or a service's name, differed from a fresh start's)
        if rules and (mods == "class") and rng.random() < 0.6:
            k = rng.randrange(len(rules))
            rules[k] = (rules[k][0].swapcase(), [x for x in rules[k][1] if x[0] != "class"])
        elif services:
            k = rng.randrange(len(services))
            services[k] = (services[k][0].swapcase(), services[k][1])
        return Cfg(timeout=cfg.timeout, services=services, rules=rules)
    for _ in range(rng.choice([1, 1, 2, 3])):
        r = rng.random()
        if r < 0.2 and services:
            services.pop(rng.randrange(len(services)))
        elif r < 0.4:
            free = [n for n in SVC_NAMES if n not in [s[0] for s in services]]
            if free:
                services.insert(rng.randint(0, len(services)), (rng.choice(free), rng.choice(SVC_TYPES)))
        elif r < 0.6 and services:
            k = rng.randrange(len(services))
            services[k] = (services[k][0], rng.choice(SVC_TYPES))
        elif mods == "class" and r < 0.7 and rules:
            rules.pop(rng.randrange(len(rules)))
        elif mods == "class" and r < 0.8:
            free = [n for n in ["a", "B", "c", "Dd", "e"] if n not in [x[0] for x in rules]]
            if free:
                rules.append((rng.choice(free), [("class", "new-class")]))
        elif mods == "class" and rules:
            k = rng.randrange(len(rules))
            n, kv = rules[k]
            r2 = rng.random()
            if r2 < 0.4:
                kv = [x for x in kv if x[0] != "class"] + [("class", rng.choice(["edited", "other"]))]
            if r2 > 0.2:
                crit, vals = rng.choice([("hostname", ["*", "nomatch", "host.example"]), ("address", ["1.2.3.4", "10.*", "*", "9.9.9.9"]),
                                         ("username", ["*", "ident", "nomatch"]), ("account", ["*", "acct", "nomatch"])])
                have = [x for x in kv if x[0] == crit]
                if have and rng.random() < 0.3:
                    kv = [x for x in kv if x[0] != crit]                       # criterion removed
                else:
                    kv = [x for x in kv if x[0] != crit] + [(crit, rng.choice(vals))]   # added or edited
            rules[k] = (n, kv)
    return Cfg(timeout=cfg.timeout, services=services, rules=rules)


def _cfg_from_fields(confop):
    services = []
    for f in confop.split(" ")[2:]:
        if f.startswith("s="):
            n, v = f[2:].split(":")
            services.append((unhx(n).decode("latin-1"), unhx(v).decode("latin-1")))
    return Cfg(services=services)


# ------------------------------------------------------------------ cross-case judges (implementation vs implementation)

def _outs(recs):
    return [canon_record(r) for r in recs]


def _lines_of(cr):
    if cr[0] == "out":
        return list(cr[1])
    if cr[0] == "rc":
        return list(cr[2])
    if cr[0] == "exit":
        return list(cr[3])
    return []


TAG = re.compile(rb"^X (\S+) ([0-9a-f]+)_([0-9a-f]+) ")
CLIENT = re.compile(rb"^[oUuNIMCkdDR] (-?\d+) ")


def conversation(recs, cid):
    """the lines naming client cid, serials replaced by per-id ordinals"""
    seen = []
    conv = []
    for r in recs:
        for l in _lines_of(canon_record(r)):
            m = TAG.match(l)
            if m:
                v = int(m.group(2), 16)
                v = v - (1 << 32) if v >= (1 << 31) else v
                if v == cid:
                    ser = m.group(3)
                    if ser not in seen:
                        seen.append(ser)
                    conv.append(l[:m.start(3)] + b"#%d" % seen.index(ser) + l[m.end(3):])
                continue
            m = CLIENT.match(l)
            if m and int(m.group(1)) == cid:
                conv.append(l)
    # queries of one client that follow each other are compared as a set whether or not they were
    # written in one step (records of a burst hold the lines of many steps; the order of queries
    # within a step is the order of service slots, which is not observable behaviour)
    return sort_slot_runs(conv)


def judge_all(prop, cases, impl, model, spec):
    from .core import Finding
    groups = {}
    for c, ir in zip(cases, impl):
        g = c.tags.get("group")
        if g:
            groups.setdefault(g, []).append((c, ir))
    out = []

    def finding(c, idx, why, members):
        f = Finding(c, "judge", idx, why, impl=[r for _c, r in members if _c is c][0], name=spec_name(prop))
        f.group = [m[0] for m in members]
        out.append(f)

    for g, members in groups.items():
        if prop == "C04":
            base = [m for m in members if m[0].tags.get("role") == "base"]
            if not base:
                continue
            b_out = _outs(base[0][1])
            for c, ir in members:
                if c.tags.get("role") != "variant":
                    continue
                p = c.tags["pos"]
                v_out = _outs(ir)
                if p < len(v_out) and _lines_of(v_out[p]):
                    finding(c, p, "C04: a stray reply produced output %r" % (_lines_of(v_out[p])[:2],), [base[0], (c, ir)])
                elif v_out[:p] + v_out[p + 1:] != b_out:
                    d = core.first_diff(v_out[:p] + v_out[p + 1:], b_out)
                    finding(c, d, "C04: behaviour after a stray reply differs from the history without it", [base[0], (c, ir)])
        elif prop == "C07":
            alls = [m for m in members if m[0].tags.get("role") == "all"]
            for c, ir in members:
                if c.tags.get("role") != "only":
                    continue
                cid = c.tags["cid"]
                alone = conversation(ir, cid)
                for ca, ira in alls:
                    if conversation(ira, cid) != alone:
                        finding(ca, 0, "C07: the conversation about client %d depends on other clients' traffic" % cid, [(c, ir), (ca, ira)])
                        break
        elif prop == "C08":
            base = [m for m in members if m[0].tags.get("role") == "base"]
            if not base:
                continue
            hl = header_len(base[0][0]) - 1
            b_lines = sort_slot_runs([l for cr in _outs(base[0][1])[hl:] for l in _lines_of(cr)])
            for c, ir in members:
                role = c.tags.get("role")
                if role == "chunk":
                    v_lines = sort_slot_runs([l for cr in _outs(ir)[hl:] for l in _lines_of(cr)])
                    if v_lines != b_lines:
                        finding(c, 0, "C08: the same byte stream in different read() chunks is treated differently", [base[0], (c, ir)])
                elif role == "junk":
                    marks = set(m + hl for m in c.tags["junk"])
                    v = _outs(ir)
                    kept = sort_slot_runs([l for i, cr in enumerate(v) if i >= hl and i not in marks for l in _lines_of(cr)])
                    bad = [l for i in marks if i < len(v) for l in _lines_of(v[i]) if CLIENT.match(l) or l.startswith(b"X ")]
                    if bad:
                        finding(c, min(marks), "C08: a junk line produced a client-directed message %r" % (bad[:1],), [base[0], (c, ir)])
                    elif kept != b_lines:
                        finding(c, 0, "C08: well-formed lines are treated differently when junk lines are mixed in", [base[0], (c, ir)])
        elif prop == "C17":
            rel = [m for m in members if m[0].tags.get("role") == "reload"]
            fre = [m for m in members if m[0].tags.get("role") == "fresh"]
            if rel and fre:
                hl = header_len(rel[0][0]) - 1
                nrel = rel[0][0].tags.get("nreload", 1)
                a = _probe_view(rel[0][1][hl + nrel:])
                bb = _probe_view(fre[0][1][hl:])
                if a != bb:
                    d = core.first_diff(a, bb)
                    finding(rel[0][0], (d or 0) + hl + nrel, "C17: after the reload the daemon does not behave like one freshly started on the new file: %r vs %r" % (
                        a[d] if d is not None and d < len(a) else None, bb[d] if d is not None and d < len(bb) else None), [rel[0], fre[0]])
    return out


SERIAL = re.compile(rb"^(X \S+ [0-9a-f]+_)([0-9a-f]+) ")


def _probe_view(recs):
    """per-step outputs up to serials, statistics counters and the order of X lines within a step"""
    view = []
    for r in recs:
        ls = []
        for l in _lines_of(canon_record(r)):
            if l.startswith(b"S "):
                continue
            if l.startswith(b"A xquery :-"):
                continue      # a service the file no longer names, kept only because it still owes an answer
            l = SERIAL.sub(lambda m: m.group(1) + b"# ", l)
            ls.append(l)
        # slot order is not observable behaviour: X lines of one step and the `A xquery` listing
        xs = sorted(l for l in ls if l.startswith(b"X ") or l.startswith(b"A xquery "))
        view.append(tuple(xs) + tuple(l for l in ls if not (l.startswith(b"X ") or l.startswith(b"A xquery "))))
    return view


# ------------------------------------------------------------------ projection / canonicalisation

TIMING = re.compile(rb"\(in [^)]* sec\)")


WORD = re.compile(rb'[^\s;{}"]+')
TYPE_NAMES = {b"login", b"login-ipr", b"dronecheck", b"combined"}


def data_words(case):
    """every word of the configuration texts a case loads (service, rule and class names, values):
    what a statistics or configuration report may legitimately echo, as opposed to its own wording"""
    words = set(TYPE_NAMES)
    for l in case.lines[1:]:
        f = l.split(" ")
        if f[0] in ("conf", "reload") and len(f) > 1:
            try:
                words.update(WORD.findall(unhx(f[1])))
            except Exception:
                pass
    return words


def neutral_global(l, names):
    """a global report line without its wording: letter, module, and the tokens that are data -
    numbers and configured names.  No property speaks about the wording of operator notices,
    statistics or configuration listings (C10 reads one figure out of `S iauth`, which the judge
    does on the unprojected line; C09 judges well-formedness on the unprojected line too)."""
    if l.startswith(b"> "):
        return b">"
    if len(l) > 2 and l[:1] in (b"S", b"A") and l[1:2] == b" ":
        toks = l.split(b" ")
        keep = toks[:2]
        for t in toks[2:]:
            t = t.lstrip(b":")
            if not t:
                continue
            bare = t[1:] if t[:1] == b"-" else t
            if any(48 <= c <= 57 for c in t) or bare in names:
                keep.append(t)
        return b" ".join(keep)
    return l


def canon_out(hexs, names=None):
    """decode an `out` payload into canonical lines"""
    data = unhx(hexs)
    lines = data.split(b"\n")
    if lines and lines[-1] == b"":
        lines.pop()
    out = []
    for l in lines:
        if l.startswith(b"S class :") and b"(in " in l:
            l = TIMING.sub(b"(in T sec)", l)
        out.append(l)
    out = sort_slot_runs(out)
    if names is not None:
        out = [neutral_global(l, names) for l in out]
    return out


def sort_slot_runs(out):
    """the slot a service occupies in the xquery vector is not observable behaviour (it depends on
    how many intermediate rescans a reload triggered): runs of per-service lines are compared as sets"""
    res, i = [], 0
    while i < len(out):
        k = _slot_kind(out[i])
        if k is None:
            res.append(out[i])
            i += 1
            continue
        j = i
        while j < len(out) and _slot_kind(out[j]) == k:
            j += 1
        res.extend(sorted(out[i:j]))
        i = j
    return res


def _slot_kind(l):
    if l.startswith(b"X "):
        # the queries of one instance (same routing tag) that follow each other; queries of
        # different instances are written in the order the instances were served
        f = l.split(b" ", 3)
        return (b"X", f[2] if len(f) > 2 else b"")
    if l.startswith(b"A xquery :"):
        return b"A"
    if l.startswith(b"S xquery : ") or l.startswith(b"S xquery :-"):
        return b"S"
    return None


def canon_record(rec, names=None):
    f = rec.split(" ")
    if f[0] == "out":
        return ("out", tuple(canon_out(f[1] if len(f) > 1 else "=", names)), tuple(f[2:]))
    if f[0] == "rc" and len(f) >= 4:
        lines = canon_out(f[3], names)
        if any(l.startswith(b"V :") for l in lines):
            # start-up: what the logging layer prints before the banner (console verbosity is only
            # lowered after the modules are set up) is outside every property
            while not lines[0].startswith(b"V :"):
                lines.pop(0)
        return ("rc", "0" if f[1] == "0" else "nz", tuple(lines))
    if f[0] == "exit":
        return ("exit", f[1], f[2], tuple(canon_out(f[4] if len(f) > 4 else "=", names)))
    if f[0] == "fault":
        return ("fault",)
    if f[0] == "log":
        return ("log",)
    return (rec,)


def projector(prop):
    return lambda i, rec: canon_record(rec)


def case_projector(prop, case):
    """model/implementation comparison: global report lines without their wording"""
    names = data_words(case)
    return lambda i, rec: canon_record(rec, names)


def spec_name(prop):
    return "Iauthd.Proto spec %s (trace judge)" % prop


def correspondence_name(prop):
    return "correspondence Proto: iauth_core/xquery/class vs Iauthd.Proto.stepChunk on canonical outputs"


def service_names(case):
    """every service name some configuration of the case mentions (an upper bound of the slots in use)"""
    names = set()
    for l in case.lines[1:]:
        f = l.split(" ")
        if f[0] in ("conf", "reload"):
            names.update(x[2:].split(":")[0] for x in f[2:] if x.startswith("s="))
    return names


def respelled_names(case):
    """names (services, rules) that occur in the case's configurations in more than one letter case"""
    seen = {}
    for l in case.lines[1:]:
        f = l.split(" ")
        if f[0] in ("conf", "reload"):
            for x in f[2:]:
                if x[:2] in ("s=", "r=", "o=", "c="):
                    n = unhx(x[2:].split(":")[0])
                    seen.setdefault(n.lower(), set()).add(n)
    return [k for k, v in seen.items() if len(v) > 1]


def classify(prop, f):
    group = getattr(f, "group", None) or [f.case]
    if len(service_names(f.case)) > 32:
        # more service names than the per-client masks have bits: one finding whatever the symptom
        return "proto:%s:more-than-32-service-slots" % prop
    op = f.case.lines[1 + f.idx] if f.idx is not None and 1 + f.idx < len(f.case.lines) else "?"
    kind = op.split(" ")[0]
    if kind == "in":
        try:
            txt = unhx(op.split(" ")[1]).decode("latin-1").split()
            kind = "in:" + (txt[1][:1] if len(txt) > 1 else "short")
        except Exception:
            pass
    return "proto:%s:%s" % (prop, kind)


COMMON_THEOREMS = [
    "Iauthd.Proto.runOps_total_inv",
    "Iauthd.Proto.stepLine_inv",
    "Iauthd.Proto.stepLine_total",
]

THEOREMS = {
    "C01": ["Iauthd.Properties.C01_invariant", "Iauthd.Properties.C01_verdict_removes", "Iauthd.Properties.C01_unknown_id_inert",
            "Iauthd.Properties.C01_names_live", "Iauthd.Properties.C01_timeout_names", "Iauthd.Proto.reqEvent_emits", "Iauthd.Proto.xqReply_emits",
            "Iauthd.Proto.accept_spec", "Iauthd.Proto.kill_spec", "Iauthd.Proto.gate_spec", "Iauthd.Proto.reqEvent_spec",
            "Iauthd.Proto.xqReply_spec", "Iauthd.Proto.withReq_inv",
            "Iauthd.Properties.C01_history", "Iauthd.Properties.C01_history_from", "Iauthd.Properties.C01_trace_faithful",
            "Iauthd.Properties.C01_reload", "Iauthd.Proto.runTrace_sim", "Iauthd.Proto.stepLine_sim", "Iauthd.Proto.stepTimeout_sim",
            "Iauthd.Proto.reqEvent_tr", "Iauthd.Proto.xqReply_tr", "Iauthd.Proto.shape_fold", "Iauthd.Proto.sendReq_parse",
            "Iauthd.Proto.xquery_parse", "Iauthd.Proto.strtol_decInt", "Iauthd.Proto.runTrace_runOps"],
    "C02": ["Iauthd.Properties.C02_counters", "Iauthd.Properties.C02_gate", "Iauthd.Properties.C02_gate_sets",
            "Iauthd.Properties.C02_refusal_kills", "Iauthd.Proto.runOps_hold", "Iauthd.Proto.gate_condition_iff",
            "Iauthd.Proto.xqVouch_hold", "Iauthd.Proto.xqCheckPassword_hold", "Iauthd.Proto.xqFinishPre_hold",
            "Iauthd.Proto.holdsAfterPassword_spec"],
    "C03": ["Iauthd.Properties.C03_gate_complete", "Iauthd.Properties.C03_counters", "Iauthd.Properties.C03_password_gated",
            "Iauthd.Properties.C03_reply_gated", "Iauthd.Properties.C03_timeout_sticky", "Iauthd.Proto.runOps_hold",
            "Iauthd.Proto.reqEvent_holdOut", "Iauthd.Proto.xqReply_holdOut", "Iauthd.Proto.gate_removes_if",
            "Iauthd.Properties.C03_history", "Iauthd.Properties.C03_reload", "Iauthd.Proto.runOps_settled", "Iauthd.Proto.gate_settles",
            "Iauthd.Proto.reqEvent_settles", "Iauthd.Proto.xqReply_settles"],
    "C04": ["Iauthd.Properties.C04_stray_tag", "Iauthd.Properties.C04_not_awaited", "Iauthd.Properties.C04_tag_exact",
            "Iauthd.Properties.C04_others", "Iauthd.Proto.parseTag_range", "Iauthd.Proto.validateRequest_serial", "Iauthd.Proto.parseTag_routing",
            "Iauthd.Properties.C04_tag_readback", "Iauthd.Properties.C04_tag_injective",
            "Iauthd.Properties.C04_slots_alive", "Iauthd.Properties.C04_reload_slots", "Iauthd.Properties.C04_tag_readers_agree", "Iauthd.Proto.runOps_refd",
            "Iauthd.Proto.applyConfig_ref", "Iauthd.Proto.xqReply_ref", "Iauthd.Proto.reqEvent_ref",
            "Iauthd.Properties.C04_stray_line", "Iauthd.Properties.C04_history_insert", "Iauthd.Proto.onReply_stray"],
    "C05": ["Iauthd.Properties.C05_refusal", "Iauthd.Properties.C05_vouch", "Iauthd.Properties.C05_stamp_shape",
            "Iauthd.Properties.C05_blank_is_plain", "Iauthd.Properties.C05_dronecheck_no_stamp", "Iauthd.Proto.okStamp_some",
            "Iauthd.Properties.C05_ok_readers_agree", "Iauthd.Properties.okStamp_isSome"],
    "C06": ["Iauthd.Properties.C06_query_iff", "Iauthd.Properties.C06_eligible", "Iauthd.Properties.C06_malformed_password",
            "Iauthd.Properties.C06_limits", "Iauthd.Properties.C06_prefix",
            "Iauthd.Properties.C06_password_readers_agree", "Iauthd.Proto.scanModes_spec"],
    "C07": ["Iauthd.Properties.C07_event_frame", "Iauthd.Properties.C07_drop_frame", "Iauthd.Properties.C07_reply_frame",
            "Iauthd.Properties.C07_announce_frame", "Iauthd.Properties.C07_handler_input", "Iauthd.Proto.withReq_others",
            "Iauthd.Properties.C07_history", "Iauthd.Properties.C07_history_started", "Iauthd.Properties.C07_history_started_total",
            "Iauthd.Properties.C07_two_interleavings", "Iauthd.Proto.run07_conv", "Iauthd.Proto.run07_total", "Iauthd.Proto.exec07_rel",
            "Iauthd.Proto.exec07_foreign", "Iauthd.Proto.reqEvent_rel", "Iauthd.Proto.xqReply_rel", "Iauthd.Proto.reqEvent_keep",
            "Iauthd.Proto.xqReply_keep", "Iauthd.Proto.stepLine_client", "Iauthd.Proto.dispatch_some", "Iauthd.Proto.start_allConf",
            "Iauthd.Properties.C07_reply_event_is_line", "Iauthd.Proto.tokenize_reply"],
    "C08": ["Iauthd.Properties.C08_no_fault", "Iauthd.Properties.C08_line_total", "Iauthd.Properties.C08_chunking",
            "Iauthd.Properties.C08_split", "Iauthd.Proto.splitLines_append", "Iauthd.Proto.feedAll_join", "Iauthd.Proto.stepChunk_total",
            "Iauthd.Proto.stepTimeout_total", "Iauthd.Proto.accept_ok", "Iauthd.Proto.gate_ok", "Iauthd.Proto.reqEvent_ok",
            "Iauthd.Proto.xqReply_ok", "Iauthd.Proto.newClient_ok", "Iauthd.Proto.ptonC_safe", "Iauthd.Addr.pton_safe"],
    "C09": ["Iauthd.Properties.C09_client_line", "Iauthd.Properties.C09_announced", "Iauthd.Properties.C09_address_text",
            "Iauthd.Properties.C09_console_silent", "Iauthd.Addr.ntop_ref", "Iauthd.Addr.ntop_no_colon", "Iauthd.Addr.ntop_len",
            "Iauthd.Properties.C09_wellformed", "Iauthd.Properties.C09_start", "Iauthd.Properties.C09_reload",
            "Iauthd.Properties.C09_tag_roundtrip", "Iauthd.Properties.limits_ok", "Iauthd.Properties.bootState_ok",
            "Iauthd.Properties.sampleCfg_ok", "Iauthd.Proto.runOps_wellFormed", "Iauthd.Proto.stepOp_wellFormed",
            "Iauthd.Proto.startup_wellFormed", "Iauthd.Proto.applyConfig_ok", "Iauthd.Proto.sendReq_wellFormed",
            "Iauthd.Proto.xquery_wellFormed", "Iauthd.Proto.global_wellFormed", "Iauthd.Proto.stats_wellFormed",
            "Iauthd.Proto.tagOf_routing", "Iauthd.Addr.ntop_plain"],
    "C10": ["Iauthd.Properties.C10_handler_shrinks_only", "Iauthd.Properties.C10_announce", "Iauthd.Properties.C10_in_use_figure",
            "Iauthd.Properties.C10_ids_unique",
            "Iauthd.Properties.C10_history", "Iauthd.Properties.start_inv", "Iauthd.Proto.count_eq", "Iauthd.Proto.Fin1.run",
            "Iauthd.Proto.runTrace_sim", "Iauthd.Proto.runTrace_runOps"],
    "C11": ["Iauthd.Properties.C11_first_match", "Iauthd.Properties.C11_no_match", "Iauthd.Properties.C11_criteria",
            "Iauthd.Properties.C11_class_len", "Iauthd.Addr.mask_spec", "Iauthd.Properties.C11_session_first_match",
            "Iauthd.Properties.C11_rules_in_name_order", "Iauthd.Properties.C17_rules_session"],
    "C17": ["Iauthd.Properties.C17_delivery", "Iauthd.Properties.C17_rules", "Iauthd.Properties.C17_inherit_same_rules",
            "Iauthd.Properties.C17_timeout", "Iauthd.Properties.C17_services", "Iauthd.Properties.C17_services_fresh",
            "Iauthd.Properties.C17_rules_fresh", "Iauthd.Properties.C17_config_fresh", "Iauthd.Properties.C17_same_content_silent", "Iauthd.Properties.C17_same_file_twice",
            "Iauthd.Properties.C17_services_load", "Iauthd.Properties.C17_services_loads",
            "Iauthd.Properties.GoodSec_sortSection", "Iauthd.Properties.C17_rules_load", "Iauthd.Properties.C17_rules_history",
            "Iauthd.Properties.C17_rules_session", "Iauthd.Properties.C17_rules_from_boot", "Iauthd.Proto.runOps_rules",
            "Iauthd.Proto.sortSection_distinct", "Iauthd.Proto.insertCNode_sorted", "Iauthd.Properties.C17_last_rescan",
            "Iauthd.Properties.C17_no_rescan", "Iauthd.Properties.C17_reload_is_rescan", "Iauthd.Properties.C17_reflects_start",
            "Iauthd.Properties.C17_reflects_reload", "Iauthd.Properties.C17_reloads", "Iauthd.Properties.C17_reloads_fresh",
            "Iauthd.Proto.rescanWalk_last", "Iauthd.Proto.rescanWalk_nil", "Iauthd.Proto.rescanWalk_mem",
            "Iauthd.Proto.deliverXq_exact", "Iauthd.Proto.deliverXq_keeps", "Iauthd.Proto.servicesChanged_exact", "Iauthd.Proto.configService_effect",
            "Iauthd.Proto.scan_inv", "Iauthd.Proto.unrefAll_mem", "Iauthd.Proto.servicesChanged_allConf"],
}

PROP_IMPORTS = {p: ["Iauthd.Properties." + p] for p in THEOREMS}


def theorems(prop):
    return THEOREMS.get(prop, []) + COMMON_THEOREMS


def lean_imports(prop):
    return PROP_IMPORTS.get(prop, ["Iauthd.Proto.Table"]) + ["Drv.ProtoMain"]


def lean_targets(prop):
    return lean_imports(prop) + [DRIVER]


def lean_modules(prop):
    return ["Iauthd.Proto.Text", "Iauthd.Proto.Model", "Iauthd.Proto.Handlers", "Iauthd.Proto.Step", "Iauthd.Proto.Deliver", "Iauthd.Proto.Hist", "Iauthd.Proto.Proofs", "Iauthd.Proto.Table", "Iauthd.Proto.Props", "Iauthd.Proto.Holds", "Iauthd.Proto.Chunk", "Iauthd.Proto.Names"] + (
        ["Iauthd.Proto.Render", "Iauthd.Proto.RenderHex", "Iauthd.Proto.RenderLines", "Iauthd.Proto.RenderInv", "Iauthd.Proto.RenderStep",
         "Iauthd.Proto.RenderConf", "Iauthd.Addr.ProofsChars"] if prop in ("C09", "C04", "C01", "C10") else []) + (
        ["Iauthd.Proto.Spec01", "Iauthd.Proto.RenderDec", "Iauthd.Proto.Parse01", "Iauthd.Proto.Trace01", "Iauthd.Proto.Sim01",
         "Iauthd.Proto.History01", "Iauthd.Properties.C09"] if prop in ("C01", "C10") else []) + (
        ["Iauthd.Proto.Count10", "Iauthd.Properties.C01"] if prop == "C10" else []) + (
        ["Iauthd.Proto.Settle03", "Iauthd.Proto.Settle03H", "Iauthd.Proto.RenderInv", "Iauthd.Proto.RenderStep", "Iauthd.Proto.Render",
         "Iauthd.Proto.RenderHex", "Iauthd.Proto.RenderLines"] if prop == "C03" else []) + (
        ["Iauthd.Proto.RefInv", "Iauthd.Proto.RefInvH", "Iauthd.Proto.Stray04", "Iauthd.Proto.Sim01", "Iauthd.Proto.Spec01", "Iauthd.Proto.RenderDec",
         "Iauthd.Proto.Parse01", "Iauthd.Proto.Trace01"] if prop == "C04" else []) + (
        ["Iauthd.Proto.RefInv", "Iauthd.Proto.RefInvH", "Iauthd.Proto.Rel07", "Iauthd.Proto.Keep07", "Iauthd.Proto.Hist07", "Iauthd.Proto.Start07", "Iauthd.Proto.Link07",
         "Iauthd.Proto.Render", "Iauthd.Proto.RenderHex", "Iauthd.Proto.RenderLines", "Iauthd.Proto.RenderInv", "Iauthd.Proto.RenderStep",
         "Iauthd.Proto.Sim01", "Iauthd.Properties.C10"] if prop == "C07" else []) + (
        ["Iauthd.Proto.RefInv", "Iauthd.Proto.RefInvH", "Iauthd.Proto.Rel07", "Iauthd.Proto.Keep07", "Iauthd.Proto.Hist07", "Iauthd.Proto.Start07",
         "Iauthd.Proto.Reload17", "Iauthd.Proto.Reload17b", "Iauthd.Proto.Rules17", "Iauthd.Proto.SortSec", "Iauthd.Proto.Sim01",
         "Iauthd.Proto.Render", "Iauthd.Proto.RenderHex", "Iauthd.Proto.RenderLines", "Iauthd.Proto.RenderInv", "Iauthd.Proto.RenderStep",
         "Iauthd.Set.Comparators"] + (["Iauthd.Properties.C17"] if prop == "C11" else []) if prop in ("C17", "C11") else []) + ["Iauthd.Properties." + prop]


def checker_cmd(prop):
    return "cd lean && lake build && lake env lean <(#print axioms …) ; thorough: lake env leanchecker <module>"


def trusted_base(prop):
    return ["Lean 4.33.0 kernel; axioms ⊆ {propext, Classical.choice, Quot.sound}",
            "lean/Iauthd/Proto/*.lean is hand-written from modules/iauth_core.c, iauth_xquery.c, iauth_class.c; tied by the sampled correspondence only",
            "libc behaviour modelled by assumption: strtol/strtoul, isspace, strncpy, snprintf %d %u %x, fnmatch subset",
            "harness/h_proto.c stands in for src/main.c and src/module.c; libevent, gcc, ASan/UBSan"]


def assumptions(prop):
    return ["at most 32 services (the C code's masks are 32 bits wide)",
            "service, class and rule names are barewords of the config token alphabet (no blanks/newlines)",
            "fewer than 2^32 announcements between two uses of the same (id, serial) pair"]


def coverage(prop, tier, cases, impl, model, spec):
    kinds, distinct, nontrivial = {}, set(), 0
    verdicts = 0
    for c, ir in zip(cases, impl):
        k = c.key()
        if k in distinct:
            continue
        distinct.add(k)
        saw = set()
        for rec in ir:
            cr = canon_record(rec)
            if cr[0] in ("out", "rc") and len(cr) > 1:
                for l in (cr[1] if cr[0] == "out" else cr[2]):
                    saw.add(l[:1])
        for x in saw:
            kinds[x.decode("latin-1")] = kinds.get(x.decode("latin-1"), 0) + 1
        if saw & {b"D", b"R", b"k"}:
            verdicts += 1
        if saw & {b"D", b"R", b"k", b"X", b"d", b"C"}:
            nontrivial += 1
    return {
        "evaluations": len(cases), "distinct_nontrivial": nontrivial,
        "rule": "seeded multi-client scenarios (announce/data/password/hurry/disconnect/replies of every kind/timeouts, id reuse, "
                "random service and rule tables) interleaved by a seeded schedule + a malformed-line stream; non-trivial = distinct "
                "op file in which the daemon emitted a verdict, query, challenge or soft-done",
        "samples": [c.lines for c in cases[:1]] + [c.lines for c in cases[-1:]],
        "cases_with_verdict": verdicts, "output_kind_histogram": kinds,
        "traces_validated_against_impl": len(cases),
    }
