"""Symbolic routing tags in `in` ops of the Proto engine.

A reply line may name its routing tag as   @T<cid>#<k>|<fallback>@   = "the tag the program under
test put on the queries of the k-th announced instance of client <cid>"; when that instance has
not been seen sending a query yet the literal <fallback> is used.  The placeholder is resolved by
whoever feeds the line (harness/h_proto.c from the implementation's own output, Drv/ProtoMain.lean
from the model's, harness/e2e_driver.py for the real program), with the same rules:

  * an input line announces an instance of <cid> when it is  `<decimal id, at most 10 digits> C…`
    followed by at least four more blank-separated words none of which starts with ':';
  * an output line `X <service> <hexid>_<rest> …` (hexid at most 8 hex digits) is a query of the
    current instance of that id; the first tag seen per instance is the instance's tag.

So a history can say "a reply for the previous instance" without assuming how tags are formed.
"""
import re

PH = re.compile(rb"@T(-?\d{1,10})#(\d{1,6})\|([^@\n]*)@")
ID = re.compile(rb"-?\d{1,10}\Z")
XLINE = re.compile(rb"X [^ ]+ (([0-9a-fA-F]{1,8})_[^ ]*)(?: |\Z)")


def wrap32(v):
    v &= 0xFFFFFFFF
    return v - (1 << 32) if v >= (1 << 31) else v


class TagResolver:
    def __init__(self):
        self.inst = {}
        self.tags = {}
        self.pending = b""

    def resolve(self, data):
        def sub(m):
            return self.tags.get((wrap32(int(m.group(1))), int(m.group(2))), m.group(3))
        return PH.sub(sub, data) if b"@T" in data else data

    def fed(self, data):
        self.pending += data
        while b"\n" in self.pending:
            line, self.pending = self.pending.split(b"\n", 1)
            toks = [t for t in line.split(b" ") if t]
            if (len(toks) >= 6 and ID.match(toks[0]) and toks[1][:1] == b"C"
                    and not any(t[:1] == b":" for t in toks[2:6])):
                cid = wrap32(int(toks[0]))
                self.inst[cid] = self.inst.get(cid, 0) + 1

    def out(self, data):
        for line in data.split(b"\n"):
            m = XLINE.match(line)
            if m:
                cid = wrap32(int(m.group(2), 16))
                self.tags.setdefault((cid, self.inst.get(cid, 0)), m.group(1))


def _unhx(h):
    if h in ("=", "-", "?", ""):
        return b""
    try:
        return bytes.fromhex(h)
    except ValueError:
        return b""


def resolve_ops(ops, records):
    """the op lines with every placeholder resolved from the records (`… out <hex> …`) the ops produced"""
    if not any("4054" in o and o.startswith("in ") for o in ops):     # "@T" = 40 54
        return list(ops)
    r = TagResolver()
    out = []
    for i, op in enumerate(ops):
        f = op.split(" ")
        if f[0] == "in" and len(f) >= 2:
            raw = _unhx(f[1])
            data = r.resolve(raw)
            r.fed(data)
            m = PH.search(raw)
            # the Spec is told which instance the reply was meant for: its author's intent is what
            # makes a reply stale when two instances end up with the same tag
            meant = (" for=%d#%d" % (wrap32(int(m.group(1))), int(m.group(2)))) if m else ""
            out.append("in " + (data.hex() if data else "=") + ("".join(" " + x for x in f[2:])) + meant)
        else:
            out.append(op)
        rec = records[i] if i < len(records) else ""
        rf = rec.split(" ")
        if "out" in rf:
            k = rf.index("out")
            if k + 1 < len(rf):
                r.out(_unhx(rf[k + 1]))
    return out
