"""Engine `Addr`: modules/iauth_misc.c + irc_inaddr_is_ipv4  <->  lean/Iauthd/Addr  (C12, C13)."""
import ipaddress
import itertools
import os
from . import core
from .core import Case

NAME = "addr"
DRIVER = "drv_addr"
OPS_PER_CASE = 1500


# ---------------------------------------------------------------- plumbing

def build_harness(wd, prop):
    r = core.repo()
    misc = os.path.join(r, "modules/iauth_misc.c")

    def ren(sfx):
        return ["-D%s=%s_%s" % (f, f, sfx) for f in ("irc_pton", "irc_ntop", "irc_check_mask", "irc_inaddr_cmp")]
    # -fno-sanitize=shift for iauth_misc.c only: `1.2.3.4.5` shifts by a negative amount (F23,
    # outside C13's wording); the model reproduces the x86 masking of the shift count.
    # The two extra copies (auto variables zero- / pattern-initialised) let the harness tell
    # when a result depends on an uninitialised local.
    return core.compile_c(wd, "h_addr", [
        os.path.join(core.HARNESS_DIR, "h_addr.c"),
        (misc, ["-fno-sanitize=shift"]),
        (misc, ["-fno-sanitize=shift", "-ftrivial-auto-var-init=zero"] + ren("vz")),
        (misc, ["-fno-sanitize=shift", "-ftrivial-auto-var-init=pattern"] + ren("vp")),
        os.path.join(r, "src/common.c")])


def harness_cmd(path, prop):
    return [path]


# Which variant of the Lean model mirrors the repository under test.  The printer model is the
# repaired one (fix_ntop.diff, in /repo as 4fad189).  The parser model is the repository's
# current code; switch PTON_MODEL to "fixed" in the commit that applies fix_pton_cidr.diff (F26).
# All theorems are proved for both parser variants (`ptonWith fx`).
NTOP_MODEL = "fixed"
PTON_MODEL = "fixed"


def model_args(prop):
    # VERIF_ADDR_MODEL=pinned / VERIF_ADDR_PTON=fixed override (self-validation against other trees)
    args = ["model"]
    if os.environ.get("VERIF_ADDR_MODEL", NTOP_MODEL) == "pinned":
        args.append("ntop-pinned")
    if os.environ.get("VERIF_ADDR_PTON", PTON_MODEL) == "fixed":
        args.append("pton-fixed")
    return args


def spec_args(prop):
    return "trace"   # the spec is a relation on observations: judged on the implementation's records


def run_trace_judge(prop, cases, impl):
    """Feed `op<TAB>implementation record` to `drv_addr judge <prop>`; one verdict per op."""
    jcases = []
    for c, ir in zip(cases, impl):
        ops = c.lines[1:]
        lines = []
        for i, op in enumerate(ops):
            rec = ir[i] if i < len(ir) else "<missing>"
            lines.append(op + "\t" + rec)
        jc = Case(c.name, lines)
        jcases.append(jc)
    out, _errs = core.run_cases([core.drv_path(DRIVER), "judge", prop], jcases)
    return out


def judge(prop, case, ir, sr):
    n_ops = len(case.lines) - 1
    if sr is None:
        return False
    for i in range(n_ops):
        v = sr[i] if i < len(sr) else "FAIL no-verdict"
        if v.startswith("FAIL"):
            return (i, v[5:] + " | op: " + case.lines[1 + i] + " | observed: " + (ir[i] if i < len(ir) else "<missing>"))
    return False


def header_len(case):
    return 1


def _proj(i, rec):
    if rec.startswith("l"):
        return "l"                      # libc is not modelled
    if rec.startswith("r "):
        return rec.split(" |")[0]       # … nor the libc half of a round trip
    return rec


def projector(prop):
    return _proj


def spec_name(prop):
    return {"C12": "Iauthd.Addr.c12Check / c12NtopCheck (round trip through own parser, reference grammar and libc; no leading ':'; < 40 bytes; idempotent)",
            "C13": "Iauthd.Addr.c13MaskCheck / c13PtonCheck (prefix equality; documented netmask texts; agreement with the standard parser)"}[prop]


def correspondence_name(prop):
    return "correspondence Addr: modules/iauth_misc.c vs Iauthd.Addr.{ntop,pton,checkMask} on all records (libc fields excluded)"


def theorems(prop):
    A = "Iauthd.Addr."
    if prop == "C12":
        return [A + t for t in (
            # headline
            "ntop_shape", "ntop_no_colon", "ntop_len", "ntop_ipv4",
            "hex_roundtrip", "dec_roundtrip", "ntop_ref", "ntop_pton", "ntop_canon", "print_parse_print",
            # building blocks worth naming
            "runSearch_sound", "printLoop_run", "printLoop_rest", "pton_full", "pton_layout", "pton_quad",
            "finishShift_spec", "pton_safe",
            # the pinned printer is wrong (F7, F8), the repaired one is right on the witnesses
            "ntopPinned_F7", "ntopPinned_F8", "ntopPinned_F7_not_roundtrip", "ntopPinned_F8_rejected",
            "ntop_F7_fixed", "ntop_F8_fixed",
        )] + ["Iauthd.Properties.C12", "Iauthd.Properties.C12_idempotent", "Iauthd.Properties.C12_judge_on_model"]
    return [A + t for t in (
        "mask_spec", "mask_spec_bool", "checkMaskL_spec",
        "pton_safe", "v6Loop_safe", "ip4Loop_safe", "partStart_ne_none", "finishShift_safe",
        "pton_uninit_only_after_blank",
        "star", "cidr4", "wild4", "wild4_1", "wild4_3", "wild6", "cidr6", "ntop_cidr6", "pton_full_term", "pton_layout_term",
        "pton_quad", "ntop_pton", "ntop_ref",
        # concrete facts about the unrepaired parser (recorded, not alarmed unless C13 says so)
        "pton_F23", "pton_uninit_witness", "pton_F26_cidr_rejected", "pton_F26_bits_unwritten", "pton_trailing_colon",
        "ptonFixed_F26_cidr", "ptonFixed_F26_plain", "ptonFixed_still_rejects",
    )] + ["Iauthd.Properties.C13_mask", "Iauthd.Properties.C13_mask_judge_on_model", "Iauthd.Properties.C13_safe",
          "Iauthd.Properties.C13_agree_partial", "Iauthd.Properties.C13_netmask", "Iauthd.Properties.C13_netmask_partial",
          "Iauthd.Properties.C13_plain_is_128", "Iauthd.Addr.ntop_pton_wb"]


def lean_imports(prop):
    return ["Iauthd.Properties." + prop]


def lean_targets(prop):
    return lean_imports(prop) + [DRIVER]


def lean_modules(prop):
    return ["Iauthd.Addr.Model", "Iauthd.Addr.Spec", "Iauthd.Addr.ProofsMask", "Iauthd.Addr.ProofsSafe",
            "Iauthd.Addr.ProofsShift", "Iauthd.Addr.ProofsNtop", "Iauthd.Addr.ProofsText", "Iauthd.Addr.ProofsRef",
            "Iauthd.Addr.ProofsPton", "Iauthd.Addr.ProofsPton4", "Iauthd.Addr.ProofsRound",
            "Iauthd.Addr.ProofsMaskText", "Iauthd.Addr.ProofsMask6", "Iauthd.Addr.ProofsChars", "Iauthd.Addr.Proofs",
            "Iauthd.Properties." + prop]


def checker_cmd(prop):
    return "cd lean && lake build && lake env lean <(#print axioms …) ; thorough: lake env leanchecker <module>"


def trusted_base(prop):
    return ["Lean 4.33.0 kernel; axioms ⊆ {propext, Classical.choice, Quot.sound}",
            "Iauthd/Addr/Model.lean is hand-written from modules/iauth_misc.c and the irc_inaddr_is_ipv4 macro; tied by the sampled correspondence only",
            "Iauthd/Addr/Spec.lean: refParse (RFC 4291 / dotted-quad grammar) is compared with glibc inet_pton on every generated text",
            "harness/h_addr.c, vlib/eng_addr.py, gcc + ASan/UBSan (shift sanitizer off for iauth_misc.c), glibc inet_pton",
            "host-order group values: htons/ntohs/htonl/ntohl and the union views in6_32[] are not modelled"]


def assumptions(prop):
    a = ["snprintf(\"%u.%u.%u.%u\") prints four decimal octets and truncates to out_size-1 bytes",
         "out_size >= 1 (out_size = 0 would store at output[-1]; every caller passes sizeof of a 40-byte buffer)",
         "C-locale isspace/isdigit; strchr finds the first occurrence",
         "x86 shift-count masking for the out-of-range shift of `1.2.3.4.5` (F23); not alarmed"]
    if prop == "C13":
        a += ["an uninitialised-local read (irc_pton after leading blanks when irc_pton_ip4 fails) is reported by the harness as `uninit`, reproduced by the model and not alarmed (outside C13's wording)",
              "documented netmask texts = docParse in Spec.lean (CIDR with canonical decimal length, wildcards); plain addresses carry no claim about *bits"]
    return a


# ---------------------------------------------------------------- classification

def _text_shape(hextext):
    try:
        t = bytes.fromhex(hextext).decode("latin-1") if hextext != "=" else ""
    except ValueError:
        return "?"
    if "." in t and ":" not in t:
        return "dotted"
    groups = [p for p in t.split(":") if p != ""]
    if "::" in t:
        return "double-colon-with-%d-groups" % len(groups) if len(groups) >= 8 else "compressed"
    return "full" if len(groups) == 8 else "%d-groups" % len(groups)


def classify(prop, f):
    op = f.case.lines[1 + f.idx] if f.idx is not None and 1 + f.idx < len(f.case.lines) else "?"
    kind = op.split(" ")[0]
    if kind in ("rt", "ntop"):
        kind = "print"
    clause = str(f.detail).split(" ")[0] if f.kind == "judge" else f.kind
    sig = "addr:%s:%s:%s" % (prop, kind, clause)
    if prop == "C12" and f.impl and f.idx is not None and f.idx < len(f.impl):
        rec = f.impl[f.idx].split(" ")
        if len(rec) > 2 and rec[0] in ("r", "n"):
            sig += ":" + _text_shape(rec[2])
    if prop == "C13" and kind == "pton":
        fl = op.split(" ")
        sig += ":" + (fl[1] if len(fl) > 1 else "?")
    return sig


# ---------------------------------------------------------------- generators

def _hex(s):
    b = s if isinstance(s, bytes) else s.encode("latin-1")
    return b.hex() if b else "="


def _gs(gs):
    return " ".join("%x" % g for g in gs)


def _rt(gs):
    return "rt " + _gs(gs)


def _ntop(gs, size):
    return "ntop %s %d" % (_gs(gs), size)


def _mask(a, m, n):
    return "mask %s %s %d" % (_gs(a), _gs(m), n)


def _pton(s, wb, tr):
    return "pton b%dt%d %s" % (wb, tr, _hex(s))


def _libc(s):
    return "libc " + _hex(s)


def _batch(prefix, ops, tags=None, per=OPS_PER_CASE):
    return [Case("%s/%d" % (prefix, i // per), ops[i:i + per], tags=dict(tags or {}))
            for i in range(0, len(ops), per)]


DIGITS = {1: [0x1, 0xf, 0xa, 0x9], 2: [0x10, 0xff, 0xa0, 0x7f], 3: [0x100, 0xfff, 0xabc, 0x800],
          4: [0x1000, 0xffff, 0x8000, 0xfedc]}
OCTETS = [0, 1, 9, 10, 99, 100, 199, 200, 254, 255]
BOUNDARY_LEN = [0, 1, 8, 15, 16, 17, 31, 32, 33, 127, 128, 129]
OUT_SIZES = [40, 1, 2, 3, 5, 8, 16, 39, 41, 64]


def _rand_group(rng, ndig):
    lo = 0 if ndig == 0 else 16 ** (ndig - 1)
    hi = 0 if ndig == 0 else 16 ** ndig - 1
    return rng.randint(lo, hi)


def gen_c12(tier, seed):
    rng = core.rng_for(seed, "addr-c12")
    cases = []
    # (1) all 2^8 zero patterns x digit profiles
    ops = []
    for zmask in range(256):
        for prof in range(5):
            gs = []
            for i in range(8):
                if zmask >> i & 1:
                    gs.append(0)
                elif prof == 0:
                    gs.append(i + 1)
                elif prof == 1:
                    gs.append(0xa000 + i)
                elif prof == 2:
                    gs.append(DIGITS[i % 4 + 1][i % 4])
                elif prof == 3:
                    gs.append(DIGITS[4 - i % 4][(i + 1) % 4])
                else:
                    gs.append(_rand_group(rng, rng.randint(1, 4)))
            ops.append(_rt(gs))
    cases += _batch("c12/zero-patterns", ops, {"gen": "zero-patterns"})
    # (2) zero / short / long: all 3^8 (quick), all 5^8 digit-count patterns (thorough)
    ops = []
    if tier == "quick":
        for pat in itertools.product((0, 1, 4), repeat=8):
            ops.append(_rt([0 if d == 0 else DIGITS[d][(i + d) % 4] for i, d in enumerate(pat)]))
    else:
        for pat in itertools.product((0, 1, 2, 3, 4), repeat=8):
            ops.append(_rt([0 if d == 0 else DIGITS[d][(i + d) % 4] for i, d in enumerate(pat)]))
    cases += _batch("c12/digit-patterns", ops, {"gen": "digit-patterns", "exhaustive": True})
    # (3) IPv4-mapped and -compatible forms with boundary octets, and near misses
    ops = []
    quads = list(itertools.product(OCTETS, repeat=4))
    if tier == "quick":
        quads = [q for k, q in enumerate(quads) if k % 3 == seed % 3] + \
                [q for q in quads if sum(1 for o in q if o in (0, 255)) >= 3]
    for a, b, c, d in quads:
        for g5 in (0, 0xffff):
            ops.append(_rt([0, 0, 0, 0, 0, g5, a * 256 + b, c * 256 + d]))
    for g4, g5, g6, g7 in itertools.product((0, 1), (0, 1, 0xfffe, 0xffff), (0, 1, 0x102, 0xffff), (0, 1, 0x304, 0xffff)):
        ops.append(_rt([0, 0, 0, 0, g4, g5, g6, g7]))
        ops.append(_rt([0, 0, 0, 1, g4, g5, g6, g7]))
        ops.append(_rt([1, 0, 0, 0, g4, g5, g6, g7]))
    cases += _batch("c12/ipv4-forms", ops, {"gen": "ipv4-forms"})
    # (4) random values: uniform, and sparse (many zero groups, mixed digit counts)
    n_rand = 30000 if tier == "quick" else 1500000
    ops = []
    for k in range(n_rand):
        if k % 2 == 0:
            gs = [rng.randint(0, 0xffff) for _ in range(8)]
        else:
            pz = rng.choice((0.2, 0.5, 0.8))
            gs = [0 if rng.random() < pz else _rand_group(rng, rng.randint(1, 4)) for _ in range(8)]
        ops.append(_rt(gs))
    cases += _batch("c12/random", ops, {"gen": "random"})
    # (5) output buffer sizes (truncation is a correspondence matter; 40 is the documented size)
    ops = []
    for k in range(300 if tier == "quick" else 5000):
        if k % 3 == 0:
            gs = [0, 0, 0, 0, 0, rng.choice((0, 0xffff)), rng.randint(1, 0xffff), rng.randint(0, 0xffff)]
        else:
            gs = [0 if rng.random() < 0.4 else _rand_group(rng, rng.randint(1, 4)) for _ in range(8)]
        for sz in OUT_SIZES:
            ops.append(_ntop(gs, sz))
    cases += _batch("c12/out-sizes", ops, {"gen": "out-sizes"})
    return cases


ALPHABET = "019af:./* "
ALPHABET7 = "1a:./* "     # length-7 strings (thorough tier) use this reduced alphabet


def _fmt_v6_variants(rng, gs):
    """RFC 4291 texts of an address: full, compressed at every zero run (incl. single groups)."""
    out = [":".join("%x" % g for g in gs)]
    i = 0
    while i < 8:
        if gs[i] == 0:
            j = i
            while j < 8 and gs[j] == 0:
                j += 1
            for end in {j, i + 1}:
                left = ":".join("%x" % g for g in gs[:i])
                right = ":".join("%x" % g for g in gs[end:])
                out.append(left + "::" + right)
            i = j
        else:
            i += 1
    v = rng.choice(out)
    out.append(v.upper())
    out.append(":".join("%04x" % g for g in gs))
    return out


def _mutate(rng, s):
    s = list(s)
    for _ in range(rng.choice((1, 1, 2))):
        r = rng.random()
        pos = rng.randint(0, len(s))
        if r < 0.3 and s:
            del s[min(pos, len(s) - 1)]
        elif r < 0.6:
            s.insert(pos, rng.choice(ALPHABET + "gG:./*\t256"))
        elif r < 0.8 and s:
            s[min(pos, len(s) - 1)] = rng.choice(ALPHABET + "xX-+")
        elif s:
            q = rng.randint(0, len(s))
            a, b = min(pos, q), max(pos, q)
            s[a:a] = s[a:b]
    return "".join(s)[:80]


def _string_ops(s, all_flags=True):
    ops = [_libc(s), _pton(s, 0, 0), _pton(s, 1, 0)]
    if all_flags:
        ops += [_pton(s, 0, 1), _pton(s, 1, 1)]
    return ops


def gen_c13(tier, seed):
    rng = core.rng_for(seed, "addr-c13")
    cases = []
    # (1) masks: every group index x {0, all ones, each single bit} x every length 0..130
    ops = []
    # base addresses from every structural class the code itself distinguishes (the
    # irc_inaddr_is_ipv4 / is_valid macros): generic IPv6, IPv4-mapped, IPv4-compatible, zero, ones
    def bases():
        x, y = rng.randint(1, 0xffff), rng.randint(0, 0xffff)
        return [
            [rng.randint(0, 0xffff) for _ in range(8)],
            [0, 0, 0, 0, 0, 0xffff, x, y],
            [0, 0, 0, 0, 0, 0, x, y],
            [0] * 8,
            [0xffff] * 8,
        ]
    for gi in range(8):
        for diff in [0, 0xffff] + [1 << b for b in range(16)]:
            for a in bases():
                m = list(a)
                m[gi] ^= diff
                for n in range(131):
                    ops.append(_mask(a, m, n))
    cases += _batch("c13/mask-exhaustive", ops, {"gen": "mask-exhaustive", "exhaustive": True}, per=3000)
    # (2) random triples, lengths concentrated around the first differing bit
    ops = []
    for k in range(20000 if tier == "quick" else 1000000):
        a = [rng.randint(0, 0xffff) for _ in range(8)]
        if k % 4 == 1:
            a = [0, 0, 0, 0, 0, rng.choice((0, 0xffff)), rng.randint(1, 0xffff), rng.randint(0, 0xffff)]
        m = list(a)
        r = rng.random()
        if r < 0.6:
            p = rng.randint(0, 127)
            m[p // 16] ^= 1 << (15 - p % 16)
            for _ in range(rng.choice((0, 0, 1, 3))):
                q = rng.randint(p, 127)
                m[q // 16] ^= 1 << (15 - q % 16)
            n = max(0, p + rng.choice((-17, -16, -1, 0, 1, 2, 15, 16, 17)))
        elif r < 0.8:
            m = [rng.randint(0, 0xffff) for _ in range(8)]
            n = rng.randint(0, 140)
        else:
            n = rng.choice((0, 1, 127, 128, 129, 130, 255, 256, 65535, 4294967295, rng.randint(0, 4294967295)))
        ops.append(_mask(a, m, n))
    cases += _batch("c13/mask-random", ops, {"gen": "mask-random"}, per=3000)
    # (3) all strings over the address alphabet up to a length bound
    #     quick: length <= 5; thorough: length <= 6, and length 7 over the reduced alphabet
    maxlen = 5 if tier == "quick" else 6
    ops = []
    for ln in range(0, maxlen + 1):
        for tup in itertools.product(ALPHABET, repeat=ln):
            s = "".join(tup)
            ops += _string_ops(s, all_flags=(ln <= 4 if tier == "quick" else ln <= 5))
    if tier != "quick":
        for tup in itertools.product(ALPHABET7, repeat=7):
            ops += _string_ops("".join(tup), all_flags=False)
    cases += _batch("c13/strings-exhaustive", ops, {"gen": "strings-exhaustive", "exhaustive": True}, per=4000)
    # (4) grammar-derived netmask texts with boundary lengths
    texts = []
    for k in range(60 if tier == "quick" else 2000):
        o = [rng.choice(OCTETS + [rng.randint(0, 255)]) for _ in range(4)]
        for noct in (2, 3, 4):
            body = ".".join(str(x) for x in o[:noct])
            for n in BOUNDARY_LEN:
                texts.append("%s/%d" % (body, n))
        for noct in (1, 2, 3, 4):
            texts.append(".".join(str(x) for x in o[:noct]) + ".*")
        texts.append(".".join(str(x) for x in o))
    for k in range(80 if tier == "quick" else 3000):
        pz = rng.choice((0.1, 0.5, 0.8))
        gs = [0 if rng.random() < pz else _rand_group(rng, rng.randint(1, 4)) for _ in range(8)]
        if k % 7 == 0:
            gs = [_rand_group(rng, rng.randint(1, 4)) for _ in range(7)] + [0]
        for v in _fmt_v6_variants(rng, gs):
            texts.append(v)
            for n in rng.sample(BOUNDARY_LEN, 4 if tier == "quick" else 12):
                texts.append("%s/%d" % (v, n))
        ng = rng.randint(1, 8)
        part = ":".join("%x" % (g or 1) for g in gs[:ng])
        texts.append(part + ":*")
        texts.append(part + "/%d" % rng.choice(BOUNDARY_LEN))
        # IPv4 tails
        q = "%d.%d.%d.%d" % tuple(rng.choice(OCTETS) for _ in range(4))
        texts += ["::ffff:" + q, "::" + q, "1:2:3:4:5:6:" + q, "::ffff:%s/%d" % (q, rng.choice(BOUNDARY_LEN)),
                  ipaddress.IPv6Address(int.from_bytes(b"".join(g.to_bytes(2, "big") for g in gs), "big")).compressed]
    texts += ["*", "**", "***", " *", "* ", "1.2.3.4.5", "1.2.3.4.5.6.7.8.9", "1.2.3.4.5.*", "1.2.3.4.*",
              "1.2.3.4/4294967296", "1.2.3.4/4294967304", "::/4294967296", "::1/4294967424", "1:2/340282366920938463463374607431768211456",
              "1:2:3:4:5:6:7:8:", "1:2:3:4:5:6:7::", "1:2:3:4:5:6:7::/112", "::1:2:3:4:5:6:7:8", "::1:2:3:4:5:6:7", "0::1:2:3:4:5:6:7",
              "00001::", "01.2.3.4", "1.2.3.04", "1.2.3.4 ", " 1.2.3.4", "\t::1", " 1..2", " .", "\n1.2.3.256", "1.2.3.256",
              "192.168/16", "10/8", "10./8", "255.255.255.255/32", "0.0.0.0/0", "1:2:3:4:5:6:7.8.9.10", "1:2:3:4:5:6:7:1.2.3.4",
              "::ffff:1.2.3.4/24", "::ffff:1.2.3.4/33", "1::2::3", ":::", "::", ":", "1::", "::1", "1:", ":1", "a:b:c:d:e:f:0:1",
              "A:B:C:D:E:F:0:1", "ffff:ffff:ffff:ffff:ffff:ffff:ffff:ffff/128", "ffff:ffff:ffff:ffff:ffff:ffff:255.255.255.255",
              "\xe9::1", "1.2.3.\xff", "::\x801"]
    ops = []
    for t in texts:
        ops += _string_ops(t)
    cases += _batch("c13/netmask-texts", ops, {"gen": "netmask-texts"})
    # (5) mutated valid texts and longer random strings (malformed stream)
    ops = []
    for k in range(6000 if tier == "quick" else 300000):
        if k % 3 == 0:
            s = "".join(rng.choice(ALPHABET) for _ in range(rng.randint(6, 45)))
        else:
            s = _mutate(rng, rng.choice(texts))
        ops += _string_ops(s)
    cases += _batch("c13/mutated", ops, {"gen": "mutated"})
    return cases


def gen_cases(prop, tier, seed):
    return gen_c12(tier, seed) if prop == "C12" else gen_c13(tier, seed)


def search_cases(prop, finding, seed):
    """Neighbours of a diverging op plus a fresh random batch (model and code disagree but the
    property held on the generated inputs)."""
    rng = core.rng_for(seed, "addr-search")
    op = finding.case.lines[1 + finding.idx] if finding.idx is not None and 1 + finding.idx < len(finding.case.lines) else ""
    f = op.split(" ")
    ops = []
    if f and f[0] in ("rt", "ntop") and len(f) >= 9:
        gs = [int(x, 16) for x in f[1:9]]
        for i in range(8):
            for v in (0, 1, 0xffff, gs[i] ^ 1):
                g2 = list(gs)
                g2[i] = v
                ops.append(_rt(g2))
    elif f and f[0] == "pton" and len(f) == 3:
        s = bytes.fromhex(f[2]).decode("latin-1") if f[2] != "=" else ""
        for _ in range(400):
            ops += _string_ops(_mutate(rng, s))
    elif f and f[0] == "mask" and len(f) == 18:
        a = [int(x, 16) for x in f[1:9]]
        m = [int(x, 16) for x in f[9:17]]
        for n in range(0, 131):
            ops.append(_mask(a, m, n))
    extra = _batch("search/neighbours", ops)
    fresh = gen_cases(prop, "quick", seed + 7919)
    return extra + fresh


# ---------------------------------------------------------------- coverage

def coverage(prop, tier, cases, impl, model, spec):
    ops = {}
    gens = {}
    distinct = set()
    nontrivial = 0
    zero_patterns = set()
    digit_patterns = set()
    shapes = {}
    tags = {}
    mask_points = set()
    uninit = 0
    samples = []
    for c, ir, sr in zip(cases, impl, spec or [None] * len(cases)):
        g = c.tags.get("gen", c.origin)
        gens[g] = gens.get(g, 0) + len(c.lines) - 1
        if len(samples) < 3 or (g not in [s[0] for s in samples] and len(samples) < 12):
            samples.append((g, c.lines[1:3]))
        for i, op in enumerate(c.lines[1:]):
            k = op.split(" ", 1)[0]
            ops[k] = ops.get(k, 0) + 1
            if op in distinct:
                continue
            distinct.add(op)
            rec = ir[i] if i < len(ir) else ""
            if prop == "C12" and k in ("rt", "ntop"):
                f = op.split(" ")
                gs = [int(x, 16) for x in f[1:9]]
                zero_patterns.add(tuple(g == 0 for g in gs))
                digit_patterns.add(tuple(0 if g == 0 else len("%x" % g) for g in gs))
                r = rec.split(" ")
                if len(r) > 2:
                    sh = _text_shape(r[2])
                    shapes[sh] = shapes.get(sh, 0) + 1
                    if sh in ("compressed", "dotted"):
                        nontrivial += 1
            elif prop == "C13":
                if k == "mask":
                    f = op.split(" ")
                    a = [int(x, 16) for x in f[1:9]]
                    m = [int(x, 16) for x in f[9:17]]
                    d = [x ^ y for x, y in zip(a, m)]
                    nz = [i for i, x in enumerate(d) if x]
                    if len(nz) == 1 and d[nz[0]] & (d[nz[0]] - 1) == 0 and int(f[17]) <= 130:
                        mask_points.add((nz[0], d[nz[0]], int(f[17])))
                    if nz:
                        nontrivial += 1
                elif k == "pton":
                    v = sr[i] if sr and i < len(sr) else ""
                    if "uninit" in rec:
                        uninit += 1
                    t = v[3:] if v.startswith("ok ") else v.split(" ")[0]
                    fl = op.split(" ")[1]
                    tags[fl + " " + t] = tags.get(fl + " " + t, 0) + 1
                    if " acc" in v or " part" in v:
                        nontrivial += 1
    cov = {
        "evaluations": sum(ops.values()),
        "distinct_ops": len(distinct),
        "distinct_nontrivial": nontrivial,
        "op_histogram": ops,
        "generator_histogram": gens,
        "samples": samples,
        "traces_validated_against_impl": len(cases),
        "exhaustive": False,
    }
    if prop == "C12":
        cov.update({
            "rule": "round trips (irc_ntop -> irc_pton, reference grammar, inet_pton -> irc_ntop) for: all 2^8 zero patterns x 5 digit profiles; "
                    "all %s patterns of (zero / digit count) per group; IPv4-mapped/-compatible forms over boundary octets and near misses; "
                    "uniform and sparse random 128-bit values; irc_ntop with output sizes %s (correspondence only below 40). "
                    "non-trivial = distinct address whose text is compressed or dotted" % ("3^8 (0/1/4 digits)" if tier == "quick" else "5^8", OUT_SIZES),
            "zero_patterns_covered": "%d/256" % len(zero_patterns),
            "digit_count_patterns_covered": "%d/390625" % len(digit_patterns),
            "text_shapes": shapes,
        })
    else:
        cov.update({
            "rule": "masks: every (group, single-bit / zero / all-ones difference, length 0..130) exhaustively plus random triples near the first differing bit; "
                    "strings: every string over %r up to length %s with libc + flag combinations, grammar-derived CIDR/wildcard texts at boundary lengths %s, "
                    "RFC 4291 variants of random addresses, mutated valid texts and long random strings. "
                    "non-trivial = mask op with a difference, or pton op that consumed input" % (ALPHABET, "5" if tier == "quick" else "6 (and every length-7 string over %r)" % ALPHABET7, BOUNDARY_LEN),
            "mask_single_bit_points_covered": "%d/%d" % (len(mask_points), 8 * 16 * 131),
            "pton_outcomes_by_flags_and_text_class": tags,
            "uninitialised_local_reads_seen": uninit,
        })
    return cov
